import BlobfinderModel.Proofs.Rigid
import BlobfinderModel.Properties.C17
import Mathlib.Tactic.Positivity
import Mathlib.Algebra.Order.Floor.Ring
/-!
Geometry of one round of `_match_all` in exact arithmetic: how far a point may lie from a node of
the lattice it is matched against and still be selected (with the node's indices), and how far it
must lie to be rejected.  Used by the robustness theorems of C05.
-/
namespace Model

def dot (a b : V2) : ℚ := a.1 * b.1 + a.2 * b.2

/-- Lagrange's identity -/
theorem lagrange (a b : V2) : det2 a b ^ 2 = norm2 a * norm2 b - dot a b ^ 2 := by
  unfold det2 norm2 dot; ring

theorem norm2_nonneg (a : V2) : 0 ≤ norm2 a := by
  unfold norm2; nlinarith [mul_self_nonneg a.1, mul_self_nonneg a.2]

theorem det2_sq_le (e b : V2) : det2 e b ^ 2 ≤ norm2 e * norm2 b := by
  rw [lagrange]; nlinarith [sq_nonneg (dot e b)]

theorem det2_swap (a b : V2) : det2 a b = -det2 b a := by unfold det2; ring

/-- fractional indices of a point displaced by `e` from the position with indices `(x, y)` -/
theorem indices_displaced (zero a b e : V2) (x y : ℚ) (hd : det2 a b ≠ 0) :
    getIndices zero a b (vadd (calcCoord zero a b (x, y)) e)
      = some (x + det2 e b / det2 a b, y + det2 a e / det2 a b) := by
  unfold getIndices calcCoord vadd vsub smul
  simp only [hd, if_false, Option.some.injEq]
  unfold det2 at *
  apply Prod.ext
  · simp only []; rw [div_eq_iff hd, add_mul, div_mul_cancel₀ _ hd]; ring
  · simp only []; rw [div_eq_iff hd, add_mul, div_mul_cancel₀ _ hd]; ring

/-! ### rounding -/

theorem floor_le' (x : ℚ) : (x.floor : ℚ) ≤ x := Int.floor_le x
theorem lt_floor_add_one' (x : ℚ) : x < (x.floor : ℚ) + 1 := Int.lt_floor_add_one x

/-- a number closer than 1/2 to an integer rounds to it -/
theorem round_near (x : ℚ) (k : ℤ) (h : |x - k| < 1 / 2) : roundHalfEven x = k := by
  have h1 := floor_le' x
  have h2 := lt_floor_add_one' x
  rw [abs_lt] at h
  obtain ⟨hl, hr⟩ := h
  unfold roundHalfEven
  simp only []
  by_cases hk : (k : ℚ) ≤ x
  · have hf : x.floor = k := by
      have a1 : k ≤ x.floor := Int.le_floor.mpr hk
      have a2 : x.floor < k + 1 := by
        have : (x.floor : ℚ) < ((k + 1 : ℤ) : ℚ) := by push_cast; linarith
        exact_mod_cast this
      omega
    rw [hf]
    have : x - (k : ℚ) < 1 / 2 := hr
    simp only [this, if_true]
  · push Not at hk
    have hf : x.floor = k - 1 := by
      have hk1 : ((k - 1 : ℤ) : ℚ) ≤ x := by push_cast; linarith
      have a1 : k - 1 ≤ x.floor := Int.le_floor.mpr hk1
      have a2 : x.floor < k := by
        have : (x.floor : ℚ) < (k : ℚ) := by linarith
        exact_mod_cast this
      omega
    rw [hf]
    push_cast
    have n1 : ¬ (x - ((k : ℚ) - 1) < 1 / 2) := by linarith
    have n2 : 1 / 2 < x - ((k : ℚ) - 1) := by linarith
    simp only [n1, n2, if_false, if_true]
    ring

/-- the rounded value is a nearest integer -/
theorem round_nearest (x : ℚ) (k : ℤ) : |x - (roundHalfEven x : ℚ)| ≤ |x - k| := by
  have h1 := floor_le' x
  have h2 := lt_floor_add_one' x
  -- every integer is ≤ floor or ≥ floor + 1
  have hk : (k : ℚ) ≤ x.floor ∨ (x.floor : ℚ) + 1 ≤ k := by
    by_cases h : k ≤ x.floor
    · left; exact_mod_cast h
    · right; push Not at h
      have : x.floor + 1 ≤ k := h
      exact_mod_cast this
  unfold roundHalfEven
  simp only []
  split_ifs with c1 c2 c3
  · rw [abs_of_nonneg (by linarith : (0 : ℚ) ≤ x - x.floor)]
    rcases hk with hk | hk
    · rw [abs_of_nonneg (by linarith)]; linarith
    · rw [abs_of_nonpos (by linarith)]; linarith
  · push_cast
    rw [abs_of_nonpos (by linarith : x - ((x.floor : ℚ) + 1) ≤ 0)]
    rcases hk with hk | hk
    · rw [abs_of_nonneg (by linarith)]; linarith
    · rw [abs_of_nonpos (by linarith)]; linarith
  · rw [abs_of_nonneg (by linarith : (0 : ℚ) ≤ x - x.floor)]
    rcases hk with hk | hk
    · rw [abs_of_nonneg (by linarith)]; linarith
    · rw [abs_of_nonpos (by linarith)]; linarith
  · push_cast
    rw [abs_of_nonpos (by linarith : x - ((x.floor : ℚ) + 1) ≤ 0)]
    rcases hk with hk | hk
    · rw [abs_of_nonneg (by linarith)]; linarith
    · rw [abs_of_nonpos (by linarith)]; linarith

/-- a point half-way between integers (up to `η`) is at least `1/2 - η` from its rounded value -/
theorem half_cell_far (i : ℤ) (δ η : ℚ) (hδ : |δ| ≤ η) :
    1 / 2 - η ≤ |(i : ℚ) + 1 / 2 + δ - (roundHalfEven ((i : ℚ) + 1 / 2 + δ) : ℚ)| := by
  generalize roundHalfEven ((i : ℚ) + 1 / 2 + δ) = k
  rw [abs_le] at hδ
  obtain ⟨hl, hr⟩ := hδ
  by_cases h : k ≤ i
  · have : (k : ℚ) ≤ i := by exact_mod_cast h
    exact le_trans (by linarith) (le_abs_self _)
  · push Not at h
    have : (i : ℚ) + 1 ≤ k := by
      have : i + 1 ≤ k := h
      exact_mod_cast this
    exact le_trans (by linarith) (neg_le_abs _)

theorem rmax_one_ge (x : ℚ) : 1 ≤ rmax 1 x := by unfold rmax; split_ifs <;> linarith

/-- the scaled error never exceeds the unscaled one (the relaxation only divides by numbers ≥ 1) -/
theorem err2_le_unscaled (a b ij : V2) :
    err2 a b ij ≤ (ij.1 - (roundHalfEven ij.1 : ℚ)) ^ 2 * norm2 a
      + (ij.2 - (roundHalfEven ij.2 : ℚ)) ^ 2 * norm2 b := by
  unfold err2
  simp only []
  have ha := norm2_nonneg a
  have hb := norm2_nonneg b
  have m1 := rmax_one_ge (rabs ij.1)
  have m2 := rmax_one_ge (rabs ij.2)
  have e1 : (ij.1 - (roundHalfEven ij.1 : ℚ)) * (ij.1 - (roundHalfEven ij.1 : ℚ)) * norm2 a / rmax 1 (rabs ij.1)
      ≤ (ij.1 - (roundHalfEven ij.1 : ℚ)) ^ 2 * norm2 a := by
    rw [div_le_iff₀ (by linarith)]
    have : 0 ≤ (ij.1 - (roundHalfEven ij.1 : ℚ)) ^ 2 * norm2 a := by positivity
    nlinarith
  have e2 : (ij.2 - (roundHalfEven ij.2 : ℚ)) * (ij.2 - (roundHalfEven ij.2 : ℚ)) * norm2 b / rmax 1 (rabs ij.2)
      ≤ (ij.2 - (roundHalfEven ij.2 : ℚ)) ^ 2 * norm2 b := by
    rw [div_le_iff₀ (by linarith)]
    have : 0 ≤ (ij.2 - (roundHalfEven ij.2 : ℚ)) ^ 2 * norm2 b := by positivity
    nlinarith
  linarith

/-- each term of the scaled error is a lower bound -/
theorem err2_ge_first (a b ij : V2) :
    (ij.1 - (roundHalfEven ij.1 : ℚ)) ^ 2 * norm2 a / rmax 1 (rabs ij.1) ≤ err2 a b ij := by
  unfold err2
  simp only []
  have hb := norm2_nonneg b
  have m2 := rmax_one_ge (rabs ij.2)
  have : 0 ≤ (ij.2 - (roundHalfEven ij.2 : ℚ)) * (ij.2 - (roundHalfEven ij.2 : ℚ)) * norm2 b / rmax 1 (rabs ij.2) := by
    apply div_nonneg _ (by linarith)
    have := mul_self_nonneg (ij.2 - (roundHalfEven ij.2 : ℚ))
    positivity
  rw [sq]; linarith

theorem err2_ge_second (a b ij : V2) :
    (ij.2 - (roundHalfEven ij.2 : ℚ)) ^ 2 * norm2 b / rmax 1 (rabs ij.2) ≤ err2 a b ij := by
  unfold err2
  simp only []
  have ha := norm2_nonneg a
  have m1 := rmax_one_ge (rabs ij.1)
  have : 0 ≤ (ij.1 - (roundHalfEven ij.1 : ℚ)) * (ij.1 - (roundHalfEven ij.1 : ℚ)) * norm2 a / rmax 1 (rabs ij.1) := by
    apply div_nonneg _ (by linarith)
    have := mul_self_nonneg (ij.1 - (roundHalfEven ij.1 : ℚ))
    positivity
  rw [sq]; linarith

/-- for lattice vectors between 60° and 120° apart (`4 (a·b)² ≤ ‖a‖²‖b‖²`) a displacement `e` moves
the fractional index along `a` by at most `sqrt(4/3)·‖e‖/‖a‖` (stated for the squares) -/
theorem index_shift_sq_le (a b e : V2) (hd : det2 a b ≠ 0)
    (hang : 4 * dot a b ^ 2 ≤ norm2 a * norm2 b) :
    (det2 e b / det2 a b) ^ 2 * norm2 a ≤ 4 / 3 * norm2 e := by
  have hL := lagrange a b
  have hpos : 0 < det2 a b ^ 2 := by positivity
  have h34 : 3 / 4 * (norm2 a * norm2 b) ≤ det2 a b ^ 2 := by rw [hL]; linarith
  have he := det2_sq_le e b
  have hna := norm2_nonneg a
  have hnb := norm2_nonneg b
  have hne := norm2_nonneg e
  rw [div_pow, div_mul_eq_mul_div, div_le_iff₀ hpos]
  calc det2 e b ^ 2 * norm2 a ≤ norm2 e * norm2 b * norm2 a := by
        exact mul_le_mul_of_nonneg_right he hna
    _ = 4 / 3 * norm2 e * (3 / 4 * (norm2 a * norm2 b)) := by ring
    _ ≤ 4 / 3 * norm2 e * det2 a b ^ 2 := by
        apply mul_le_mul_of_nonneg_left h34; positivity

theorem dot_comm (a b : V2) : dot a b = dot b a := by unfold dot; ring

theorem index_shift_sq_le' (a b e : V2) (hd : det2 a b ≠ 0)
    (hang : 4 * dot a b ^ 2 ≤ norm2 a * norm2 b) :
    (det2 a e / det2 a b) ^ 2 * norm2 b ≤ 4 / 3 * norm2 e := by
  have hd' : det2 b a ≠ 0 := by rw [det2_swap]; exact neg_ne_zero.mpr hd
  have := index_shift_sq_le b a e hd' (by rw [dot_comm, mul_comm (norm2 b)]; exact hang)
  have e1 : det2 a e / det2 a b = det2 e a / det2 b a := by
    rw [det2_swap a e, det2_swap a b, neg_div_neg_eq]
  rw [e1]; exact this

/-- index shift for any regular lattice with `‖a‖²‖b‖² ≤ κ det(a, b)²` (`κ = 1/sin²` of the angle) -/
theorem index_shift_sq_le_kappa (a b e : V2) (kappa : ℚ) (hd : det2 a b ≠ 0)
    (hk : norm2 a * norm2 b ≤ kappa * det2 a b ^ 2) :
    (det2 e b / det2 a b) ^ 2 * norm2 a ≤ kappa * norm2 e ∧
    (det2 a e / det2 a b) ^ 2 * norm2 b ≤ kappa * norm2 e := by
  have hpos : 0 < det2 a b ^ 2 := by positivity
  have hna := norm2_nonneg a
  have hnb := norm2_nonneg b
  have hne := norm2_nonneg e
  have he1 := det2_sq_le e b
  have he2 : det2 a e ^ 2 ≤ norm2 e * norm2 a := by
    have := det2_sq_le e a
    rw [det2_swap a e]; rw [neg_sq]; exact this
  constructor
  · rw [div_pow, div_mul_eq_mul_div, div_le_iff₀ hpos]
    calc det2 e b ^ 2 * norm2 a ≤ norm2 e * norm2 b * norm2 a := mul_le_mul_of_nonneg_right he1 hna
      _ = norm2 e * (norm2 a * norm2 b) := by ring
      _ ≤ norm2 e * (kappa * det2 a b ^ 2) := mul_le_mul_of_nonneg_left hk hne
      _ = kappa * norm2 e * det2 a b ^ 2 := by ring
  · rw [div_pow, div_mul_eq_mul_div, div_le_iff₀ hpos]
    calc det2 a e ^ 2 * norm2 b ≤ norm2 e * norm2 a * norm2 b := mul_le_mul_of_nonneg_right he2 hnb
      _ = norm2 e * (norm2 a * norm2 b) := by ring
      _ ≤ norm2 e * (kappa * det2 a b ^ 2) := mul_le_mul_of_nonneg_left hk hne
      _ = kappa * norm2 e * det2 a b ^ 2 := by ring

theorem rabs_eq_abs (x : ℚ) : rabs x = |x| := by
  unfold rabs
  split_ifs with h
  · rw [abs_of_neg h]
  · rw [abs_of_nonneg (not_lt.mp h)]

theorem rmax_eq_max (a b : ℚ) : rmax a b = max a b := by
  unfold rmax
  split_ifs with h
  · rw [max_eq_right h]
  · rw [max_eq_left (le_of_lt (not_le.mp h))]

/-- the relaxation factor of a fractional index within `η` of `c` -/
theorem rmax_rabs_le (x c eta : ℚ) (h : |x - c| ≤ eta) : rmax 1 (rabs x) ≤ max 1 (|c| + eta) := by
  rw [rabs_eq_abs, rmax_eq_max]
  apply max_le_max (le_refl _)
  have : |x| ≤ |c| + |x - c| := by
    have := abs_add_le c (x - c)
    rw [add_sub_cancel] at this
    exact this
  linarith

end Model
