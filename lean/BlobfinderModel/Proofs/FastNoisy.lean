import BlobfinderModel.Proofs.FastExact
import BlobfinderModel.Proofs.Noise
import BlobfinderModel.Properties.C06
/-!
The two rounds of the fast match with noisy peaks: shape of a valid result, error of the first fit.
-/
namespace Model

/-- **anatomy of a valid fast match**: the start was regular, round one selected `selBy … z0 a0 b0`, its
weighted fit `(z1, a1, b1)` is regular, the reported selector and indices are exactly the round-two
selection against `(z1, a1, b1)`, and the reported lattice is the weighted fit of that selection -/
theorem fastmatch_valid_form (peaks : List Peak) (z0 a0 b0 : V2) (tol mw : ℚ) (mm : ℤ)
    (z2 a2 b2 : V2) (m : List Bool) (idx : List (ℤ × ℤ))
    (h : fastmatch peaks z0 a0 b0 tol mw mm = .valid z2 a2 b2 m idx) :
    ∃ z1 a1 b1, det2 a0 b0 ≠ 0 ∧
      weightedOptimize peaks (peaks.map (selBy (fun p => Gen.fm_weight_ok p.elev mw) z0 a0 b0 tol))
        ((peaks.filter (selBy (fun p => Gen.fm_weight_ok p.elev mw) z0 a0 b0 tol)).map (rix z0 a0 b0)) = some (z1, a1, b1) ∧
      det2 a1 b1 ≠ 0 ∧
      m = peaks.map (selBy (fun p => Gen.fm_weight_ok p.elev mw) z1 a1 b1 tol) ∧
      idx = (peaks.filter (selBy (fun p => Gen.fm_weight_ok p.elev mw) z1 a1 b1 tol)).map (rix z1 a1 b1) ∧
      weightedOptimize peaks m idx = some (z2, a2, b2) := by
  by_cases hd0 : det2 a0 b0 = 0
  · unfold fastmatch matchAll at h
    simp [hd0] at h
  · unfold fastmatch at h
    simp only [] at h
    rw [matchAll_eq peaks (fun p => Gen.fm_weight_ok p.elev mw) z0 a0 b0 tol hd0] at h
    simp only [] at h
    split at h
    · cases h
    · split at h
      · split at h <;> cases h
      · rename_i z1 a1 b1 hw1
        by_cases hd1 : det2 a1 b1 = 0
        · unfold matchAll at h
          simp [hd1] at h
        · rw [matchAll_eq peaks (fun p => Gen.fm_weight_ok p.elev mw) z1 a1 b1 tol hd1] at h
          simp only [] at h
          split at h
          · split at h <;> cases h
          · rename_i zz aa bb hw2
            simp only [MatchResult.valid.injEq] at h
            obtain ⟨rfl, rfl, rfl, rfl, rfl⟩ := h
            exact ⟨z1, a1, b1, hd0, hw1, hd1, rfl, rfl, hw2⟩

/-- the design part of the normal sums does not depend on the observed coordinate -/
theorem design_indep_t {β : Type} (base : List β) (i j w t t' : β → ℚ) (v1 v2 v3 : ℚ) :
    (normalOf (base.map fun e => ⟨i e, j e, w e, t e⟩)).adjq v1 v2 v3
      = (normalOf (base.map fun e => ⟨i e, j e, w e, t' e⟩)).adjq v1 v2 v3 ∧
    (normalOf (base.map fun e => ⟨i e, j e, w e, t e⟩)).s1
      = (normalOf (base.map fun e => ⟨i e, j e, w e, t' e⟩)).s1 := by
  unfold normalOf Normal.adjq
  simp only [List.map_map, Function.comp_def, and_self]

/-- the design (indices and weights) of a selection of peaks; the observed coordinate is left 0 -/
def designOf (chosen : List Peak) (R : Peak → ℤ × ℤ) : List Obs :=
  chosen.map fun p => ⟨((R p).1 : ℚ), ((R p).2 : ℚ), p.elev, 0⟩

/-- **error of the fitted lattice at any node.**  The selected peaks (predicate `S`, indices `R`) lie
within `ε` per coordinate of the nodes `R p` of the lattice `(z, a, b)`, their elevations are
non-negative; `(z1, a1, b1)` is their weighted fit.  Then for every node `(i, j)` and both coordinates
`det N · d² ≤ vᵀ adj(N) v · ε² Σw` with `N` the design of the selection. -/
theorem fit_error_at_node (peaks : List Peak) (S : Peak → Bool) (R : Peak → ℤ × ℤ) (z a b z1 a1 b1 : V2) (eps : ℚ)
    (hfit : weightedOptimize peaks (peaks.map S) ((peaks.filter S).map R) = some (z1, a1, b1))
    (hw : ∀ p ∈ peaks.filter S, 0 ≤ p.elev)
    (hn : ∀ p ∈ peaks.filter S,
      |p.pos.1 - (z.1 + ((R p).1 : ℚ) * a.1 + ((R p).2 : ℚ) * b.1)| ≤ eps ∧
      |p.pos.2 - (z.2 + ((R p).1 : ℚ) * a.2 + ((R p).2 : ℚ) * b.2)| ≤ eps) (i j : ℚ) :
    (normalOf (designOf (peaks.filter S) R)).det
        * ((calcCoord z1 a1 b1 (i, j)).1 - (calcCoord z a b (i, j)).1) ^ 2
      ≤ (normalOf (designOf (peaks.filter S) R)).adjq 1 i j * (eps ^ 2 * (normalOf (designOf (peaks.filter S) R)).s1) ∧
    (normalOf (designOf (peaks.filter S) R)).det
        * ((calcCoord z1 a1 b1 (i, j)).2 - (calcCoord z a b (i, j)).2) ^ 2
      ≤ (normalOf (designOf (peaks.filter S) R)).adjq 1 i j * (eps ^ 2 * (normalOf (designOf (peaks.filter S) R)).s1) := by
  unfold weightedOptimize at hfit
  rw [obsFor_eq, obsFor_eq] at hfit
  split at hfit
  · rename_i zy ay by_ zx ax bx hy hx
    simp only [Option.some.injEq, Prod.mk.injEq] at hfit
    obtain ⟨rfl, rfl, rfl⟩ := hfit
    have hNy := C06.cramer_solves_normal_eqs _ _ _ _ hy
    have hNx := C06.cramer_solves_normal_eqs _ _ _ _ hx
    unfold designOf
    constructor
    · have hd := det_indep_t (peaks.filter S) (fun p => ((R p).1 : ℚ)) (fun p => ((R p).2 : ℚ))
        (fun p => p.elev) (fun _ => 0) (fun p => p.pos.1)
      have hds := design_indep_t (peaks.filter S) (fun p => ((R p).1 : ℚ)) (fun p => ((R p).2 : ℚ))
        (fun p => p.elev) (fun _ => 0) (fun p => p.pos.1) 1 i j
      rw [hd, hds.1, hds.2]
      have := fit_prediction_error _ (by
          intro o ho
          obtain ⟨p, hp, rfl⟩ := List.mem_map.mp ho
          exact hw p hp) z.1 a.1 b.1 eps (by
          intro o ho
          obtain ⟨p, hp, rfl⟩ := List.mem_map.mp ho
          exact (hn p hp).1) zy ay by_ hNy i j
      unfold calcCoord vadd smul
      simp only []
      have e : ∀ q r s t u v : ℚ, q + (i * r + j * s) - (t + (i * u + j * v)) = q + i * r + j * s - (t + i * u + j * v) := by
        intros; ring
      rw [e]
      exact this
    · have hd := det_indep_t (peaks.filter S) (fun p => ((R p).1 : ℚ)) (fun p => ((R p).2 : ℚ))
        (fun p => p.elev) (fun _ => 0) (fun p => p.pos.2)
      have hds := design_indep_t (peaks.filter S) (fun p => ((R p).1 : ℚ)) (fun p => ((R p).2 : ℚ))
        (fun p => p.elev) (fun _ => 0) (fun p => p.pos.2) 1 i j
      rw [hd, hds.1, hds.2]
      have := fit_prediction_error _ (by
          intro o ho
          obtain ⟨p, hp, rfl⟩ := List.mem_map.mp ho
          exact hw p hp) z.2 a.2 b.2 eps (by
          intro o ho
          obtain ⟨p, hp, rfl⟩ := List.mem_map.mp ho
          exact (hn p hp).2) zx ax bx hNx i j
      unfold calcCoord vadd smul
      simp only []
      have e : ∀ q r s t u v : ℚ, q + (i * r + j * s) - (t + (i * u + j * v)) = q + i * r + j * s - (t + i * u + j * v) := by
        intros; ring
      rw [e]
      exact this
  · exact absurd hfit (by simp)

end Model
