import Mathlib.Analysis.Real.Sqrt
import Mathlib.Tactic.Ring
import Mathlib.Tactic.Linarith
import Mathlib.Tactic.Positivity
import Mathlib.Tactic.FieldSimp
/-!
The figure of merit that `FullMatcher._find_best_vector_match` uses to rank candidate matches, as written
(`Gen.fom_body`, with `np.linalg.norm` = square root of the sum of squares), its square-root free closed form, and
when it ranks the sublattice basis `(2a, b)` above the full lattice `(a, b)`.
-/
namespace Model
open Real

/-- `fom` as written: `S` = sum of the elevations of the matched peaks -/
noncomputable def fomWritten (S a0 a1 b0 b1 : ℝ) : ℝ :=
  let na := sqrt (a0 * a0 + a1 * a1)
  let nb := sqrt (b0 * b0 + b1 * b1)
  S ^ 2 * (|a0 * b1 - a1 * b0| / (na * nb)) * (na * nb / (na ^ 2 + nb ^ 2))

/-- square-root free form -/
noncomputable def fomClosed (S a0 a1 b0 b1 : ℝ) : ℝ :=
  S ^ 2 * |a0 * b1 - a1 * b0| / (a0 * a0 + a1 * a1 + (b0 * b0 + b1 * b1))

theorem fom_closed (S a0 a1 b0 b1 : ℝ) (ha : 0 < a0 * a0 + a1 * a1) (hb : 0 < b0 * b0 + b1 * b1) :
    fomWritten S a0 a1 b0 b1 = fomClosed S a0 a1 b0 b1 := by
  unfold fomWritten fomClosed
  simp only
  have hna : 0 < sqrt (a0 * a0 + a1 * a1) := sqrt_pos.mpr ha
  have hnb : 0 < sqrt (b0 * b0 + b1 * b1) := sqrt_pos.mpr hb
  have ea : sqrt (a0 * a0 + a1 * a1) ^ 2 = a0 * a0 + a1 * a1 := sq_sqrt ha.le
  have eb : sqrt (b0 * b0 + b1 * b1) ^ 2 = b0 * b0 + b1 * b1 := sq_sqrt hb.le
  rw [ea, eb]
  generalize sqrt (a0 * a0 + a1 * a1) = p at hna
  generalize sqrt (b0 * b0 + b1 * b1) = q at hnb
  generalize a0 * a0 + a1 * a1 + (b0 * b0 + b1 * b1) = d
  have hpq : p * q ≠ 0 := (mul_pos hna hnb).ne'
  rw [mul_assoc, div_mul_div_comm, mul_comm (|a0 * b1 - a1 * b0|) (p * q), mul_div_mul_left _ _ hpq, mul_div_assoc]

theorem fomClosed_nonneg (S a0 a1 b0 b1 : ℝ) (ha : 0 < a0 * a0 + a1 * a1) (hb : 0 < b0 * b0 + b1 * b1) :
    0 ≤ fomClosed S a0 a1 b0 b1 := by
  unfold fomClosed
  have : 0 < a0 * a0 + a1 * a1 + (b0 * b0 + b1 * b1) := add_pos ha hb
  positivity

/-- **The full lattice outranks the index-2 sublattice along `a` whenever the sublattice holds at most
`1/√2` of the elevation** (`2 s² ≤ S²`): the equal-length factor can gain at most a factor 2. -/
theorem fom_full_ge_sublattice (S s a0 a1 b0 b1 : ℝ) (ha : 0 < a0 * a0 + a1 * a1)
    (hb : 0 < b0 * b0 + b1 * b1) (hs : 2 * s ^ 2 ≤ S ^ 2) :
    fomClosed s (2 * a0) (2 * a1) b0 b1 ≤ fomClosed S a0 a1 b0 b1 := by
  unfold fomClosed
  have hd1 : 0 < 2 * a0 * (2 * a0) + 2 * a1 * (2 * a1) + (b0 * b0 + b1 * b1) := by nlinarith
  have hd2 : 0 < a0 * a0 + a1 * a1 + (b0 * b0 + b1 * b1) := add_pos ha hb
  have e : |2 * a0 * b1 - 2 * a1 * b0| = 2 * |a0 * b1 - a1 * b0| := by
    have : 2 * a0 * b1 - 2 * a1 * b0 = 2 * (a0 * b1 - a1 * b0) := by ring
    rw [this, abs_mul, abs_of_pos (by norm_num : (0 : ℝ) < 2)]
  rw [e, div_le_div_iff₀ hd1 hd2]
  have hx : 0 ≤ |a0 * b1 - a1 * b0| := abs_nonneg _
  set x := |a0 * b1 - a1 * b0| with hxdef
  set A := a0 * a0 + a1 * a1 with hA
  set B := b0 * b0 + b1 * b1 with hB
  have e1 : 2 * a0 * (2 * a0) + 2 * a1 * (2 * a1) + B = 4 * A + B := by rw [hA]; ring
  rw [e1]
  have hs2 : 0 ≤ s ^ 2 := sq_nonneg s
  -- s² · 2x · (A + B) ≤ S² · x · (4A + B)
  have h1 : s ^ 2 * (2 * x) * (A + B) ≤ S ^ 2 * x * (A + B) := by
    have : s ^ 2 * (2 * x) * (A + B) = (2 * s ^ 2) * (x * (A + B)) := by ring
    rw [this]
    have : S ^ 2 * x * (A + B) = S ^ 2 * (x * (A + B)) := by ring
    rw [this]
    exact mul_le_mul_of_nonneg_right hs (mul_nonneg hx hd2.le)
  have h2 : S ^ 2 * x * (A + B) ≤ S ^ 2 * x * (4 * A + B) := by
    apply mul_le_mul_of_nonneg_left _ (mul_nonneg (sq_nonneg S) hx)
    linarith
  linarith

end Model
