import Mathlib.Analysis.Fourier.ZMod
/-
The convolution theorem for the discrete Fourier transform on `ZMod N` and on `ZMod H × ZMod W`
(written in curried form).  This is the mathematical content of assumption A-FFT: *if* `rfft2` /
`irfft2` compute the discrete Fourier transform of a real image and its inverse, then
`irfft2(rfft2(mask) * rfft2(data), s)` is the circular convolution the model sums directly.
What remains assumed is only that NumPy's routines compute these transforms (up to rounding).
-/
open ZMod Finset

namespace Fourier

variable {N : ℕ} [NeZero N]

/-- 1-D circular convolution on `ZMod N` -/
noncomputable def cconv (f g : ZMod N → ℂ) (k : ZMod N) : ℂ := ∑ m, f m * g (k - m)

/-- DFT of a circular convolution is the product of the DFTs -/
theorem dft_cconv (f g : ZMod N → ℂ) (k : ZMod N) : 𝓕 (cconv f g) k = 𝓕 f k * 𝓕 g k := by
  simp only [dft_apply, cconv, smul_eq_mul]
  rw [Finset.sum_mul_sum]
  simp only [Finset.mul_sum]
  rw [Finset.sum_comm]
  refine Finset.sum_congr rfl fun m _ => ?_
  -- substitute j = i + m in the inner sum
  rw [← Equiv.sum_comp (Equiv.addRight m)]
  refine Finset.sum_congr rfl fun i _ => ?_
  simp only [Equiv.coe_addRight, add_sub_cancel_right]
  have : stdAddChar (-((i + m) * k)) = stdAddChar (-(m * k)) * stdAddChar (-(i * k)) := by
    rw [← AddChar.map_add_eq_mul]; congr 1; ring
  rw [this]; ring

/-- the circular convolution is the inverse DFT of the product of the DFTs -/
theorem cconv_eq_invDFT (f g : ZMod N → ℂ) : cconv f g = 𝓕⁻ (fun k => 𝓕 f k * 𝓕 g k) := by
  rw [LinearEquiv.eq_symm_apply]
  funext k
  exact dft_cconv f g k

variable {H W : ℕ} [NeZero H] [NeZero W]

/-- 2-D DFT of an `H × W` image: DFT along the rows, then along the columns -/
noncomputable def dft2 (Φ : ZMod H → ZMod W → ℂ) (k1 : ZMod H) (k2 : ZMod W) : ℂ :=
  𝓕 (fun j1 => 𝓕 (Φ j1) k2) k1

/-- inverse 2-D DFT -/
noncomputable def invDft2 (Ψ : ZMod H → ZMod W → ℂ) (j1 : ZMod H) (j2 : ZMod W) : ℂ :=
  𝓕⁻ (fun k1 => 𝓕⁻ (Ψ k1) j2) j1

theorem invDft2_dft2 (Φ : ZMod H → ZMod W → ℂ) : invDft2 (dft2 Φ) = Φ := by
  funext j1 j2
  unfold invDft2 dft2
  -- swap the inner inverse transform (over k2) with the outer forward transform (over j1)
  have h : (fun k1 : ZMod H => 𝓕⁻ (fun k2 => 𝓕 (fun j1 => 𝓕 (Φ j1) k2) k1) j2)
      = 𝓕 (fun j1 => Φ j1 j2) := by
    funext k1
    have : (fun k2 => 𝓕 (fun j1 => 𝓕 (Φ j1) k2) k1)
        = 𝓕 (fun j2' => 𝓕 (fun j1 => Φ j1 j2') k1) := by
      funext k2
      simp only [dft_apply, smul_eq_mul, Finset.mul_sum]
      rw [Finset.sum_comm]
      refine Finset.sum_congr rfl fun a _ => Finset.sum_congr rfl fun b _ => ?_
      ring
    rw [this, LinearEquiv.symm_apply_apply]
  rw [h, LinearEquiv.symm_apply_apply]

/-- 2-D circular convolution -/
noncomputable def cconv2 (f g : ZMod H → ZMod W → ℂ) (k1 : ZMod H) (k2 : ZMod W) : ℂ :=
  ∑ m1, ∑ m2, f m1 m2 * g (k1 - m1) (k2 - m2)

/-- 2-D convolution theorem -/
theorem dft2_cconv2 (f g : ZMod H → ZMod W → ℂ) (k1 : ZMod H) (k2 : ZMod W) :
    dft2 (cconv2 f g) k1 k2 = dft2 f k1 k2 * dft2 g k1 k2 := by
  unfold dft2
  have inner : (fun j1 : ZMod H => 𝓕 (cconv2 f g j1) k2)
      = cconv (fun m1 => 𝓕 (f m1) k2) (fun j1 => 𝓕 (g j1) k2) := by
    funext j1
    have : cconv2 f g j1 = ∑ m1, cconv (f m1) (g (j1 - m1)) := by
      funext j2; simp [cconv2, cconv, Finset.sum_apply]
    rw [this, map_sum, Finset.sum_apply]
    simp only [cconv]
    refine Finset.sum_congr rfl fun m1 _ => ?_
    exact dft_cconv (f m1) (g (j1 - m1)) k2
  rw [inner, dft_cconv]

/-- **A-FFT, mathematical part**: the 2-D circular convolution equals the inverse 2-D DFT of the
product of the 2-D DFTs. -/
theorem cconv2_eq_invDft2 (f g : ZMod H → ZMod W → ℂ) :
    cconv2 f g = invDft2 (fun k1 k2 => dft2 f k1 k2 * dft2 g k1 k2) := by
  have h : (fun k1 k2 => dft2 f k1 k2 * dft2 g k1 k2) = dft2 (cconv2 f g) := by
    funext k1 k2; exact (dft2_cconv2 f g k1 k2).symm
  rw [h, invDft2_dft2]

/-- the spectrum of a real signal is Hermitian, which is why the half spectrum of `rfft` suffices -/
theorem dft_real_hermitian (f : ZMod N → ℝ) (k : ZMod N) :
    𝓕 (fun j => (f j : ℂ)) (-k) = (starRingEnd ℂ) (𝓕 (fun j => (f j : ℂ)) k) := by
  simp only [dft_apply, smul_eq_mul, map_sum, map_mul, Complex.conj_ofReal]
  refine Finset.sum_congr rfl fun j _ => ?_
  congr 1
  rw [mul_neg, neg_neg, ← AddChar.map_neg_eq_conj, neg_neg]

omit [NeZero N] in
/-- the product of two Hermitian spectra is Hermitian (so `irfft` of the product is real) -/
theorem hermitian_mul (F G : ZMod N → ℂ) (hF : ∀ k, F (-k) = (starRingEnd ℂ) (F k))
    (hG : ∀ k, G (-k) = (starRingEnd ℂ) (G k)) (k : ZMod N) :
    (F (-k) * G (-k)) = (starRingEnd ℂ) (F k * G k) := by
  rw [hF, hG, map_mul]

end Fourier
