import BlobfinderModel.Proofs.Fourier
import BlobfinderModel.Proofs.Eval
/-
Bridge between the list-based correlation map of the model (`Model.corrMap`, a direct circular sum
over `Int` indices) and the circular convolution on `ZMod H × ZMod W` for which the convolution
theorem is proved in `Proofs/Fourier.lean`.
-/
open Finset

namespace Model

/-- an `Int`-indexed rational image read on the torus `ZMod H × ZMod W`, as complex numbers -/
def liftZ (H W : ℕ) (f : ℤ → ℤ → ℚ) : ZMod H → ZMod W → ℂ :=
  fun a b => ((f (a.val : ℤ) (b.val : ℤ) : ℚ) : ℂ)

theorem sum_range_eq_sum_zmod (n : ℕ) [NeZero n] (F : ZMod n → ℂ) :
    ∑ i ∈ Finset.range n, F (i : ZMod n) = ∑ a : ZMod n, F a := by
  refine Finset.sum_nbij' (fun i => (i : ZMod n)) (fun a => a.val) ?_ ?_ ?_ ?_ ?_
  · intro i _; exact Finset.mem_univ _
  · intro a _; exact Finset.mem_range.mpr (ZMod.val_lt a)
  · intro i hi; exact ZMod.val_cast_of_lt (Finset.mem_range.mp hi)
  · intro a _; exact ZMod.natCast_zmod_val a
  · intro i _; rfl

theorem lsum_irange (n : ℕ) (g : ℤ → ℚ) :
    lsum ((irange n).map g) = ∑ i ∈ Finset.range n, g (i : ℤ) := by
  rw [lsum_eq_sum]
  unfold irange
  simp only [Int.toNat_natCast, List.map_map]
  induction n with
  | zero => simp
  | succ k ih =>
    rw [List.range_succ, List.map_append, List.sum_append, Finset.sum_range_succ, ih]
    simp

theorem lsum_irange_cast (n : ℕ) (g : ℤ → ℚ) :
    ((lsum ((irange n).map g) : ℚ) : ℂ) = ∑ i ∈ Finset.range n, ((g (i : ℤ) : ℚ) : ℂ) := by
  rw [lsum_irange]; push_cast; rfl

/-- the residue of an integer, read back as an integer, is the Python/NumPy non-negative remainder -/
theorem val_intCast_sub (n : ℕ) [NeZero n] (k : ℤ) (m : ZMod n) :
    ((((k : ZMod n) - m).val : ℕ) : ℤ) = (k - (m.val : ℤ)) % (n : ℤ) := by
  have h : (k : ZMod n) - m = ((k - (m.val : ℤ) : ℤ) : ZMod n) := by
    push_cast
    rw [ZMod.natCast_zmod_val]
  rw [h, ZMod.val_intCast]

/-- **the model's correlation map is the 2-D circular convolution on the torus, read at the
index the shift function selects** -/
theorem corrMap_eq_cconv2 (kind : String) (mask data : ℤ → ℤ → ℚ) (H W : ℕ) [NeZero H] [NeZero W]
    (y x : ℤ) :
    ((corrMap kind mask data H W y x : ℚ) : ℂ)
      = Fourier.cconv2 (liftZ H W mask) (liftZ H W data)
          ((shiftSrc kind H y : ℤ) : ZMod H) ((shiftSrc kind W x : ℤ) : ZMod W) := by
  unfold corrMap Fourier.cconv2
  simp only
  rw [lsum_irange_cast, ← sum_range_eq_sum_zmod H]
  refine Finset.sum_congr rfl fun i hi => ?_
  rw [lsum_irange_cast, ← sum_range_eq_sum_zmod W]
  refine Finset.sum_congr rfl fun j hj => ?_
  have hi' := ZMod.val_cast_of_lt (Finset.mem_range.mp hi)
  have hj' := ZMod.val_cast_of_lt (Finset.mem_range.mp hj)
  unfold liftZ
  rw [val_intCast_sub, val_intCast_sub, hi', hj']
  push_cast
  rfl

/-- **A-FFT reduced to the definition of the transforms**: the correlation map the model sums
directly is the inverse 2-D DFT of the product of the 2-D DFTs of mask and data, read at the
shifted index.  (That `rfft2`/`irfft2` compute these transforms, Hermitian-packed and rounded, is
what remains assumed about NumPy.) -/
theorem corrMap_eq_invDft2 (kind : String) (mask data : ℤ → ℤ → ℚ) (H W : ℕ) [NeZero H] [NeZero W]
    (y x : ℤ) :
    ((corrMap kind mask data H W y x : ℚ) : ℂ)
      = Fourier.invDft2 (fun k1 k2 => Fourier.dft2 (liftZ H W mask) k1 k2 * Fourier.dft2 (liftZ H W data) k1 k2)
          ((shiftSrc kind H y : ℤ) : ZMod H) ((shiftSrc kind W x : ℤ) : ZMod W) := by
  rw [corrMap_eq_cconv2, Fourier.cconv2_eq_invDft2]

end Model
