import BlobfinderModel.Proofs.Eval
/-!
The hand-written evaluation model (`Model.refineCenter`, `Model.elevation2`) against the kernels as
*generated from the source* (`Gen.center_of_mass`, `Gen.refine_center`, `Gen.peak_elevation`).
-/
namespace Model

/-- the candidate slopes of the elevation, as a list -/
def elevCands (corr : ℤ → ℤ → ℚ) (h w : ℤ) (py px height : ℚ) : List ℚ :=
  (irange h).flatMap fun (y : ℤ) => (irange w).filterMap fun (x : ℤ) =>
    let d2 := ((y : ℚ) - py) ^ 2 + ((x : ℚ) - px) ^ 2
    if Gen.elev_rmin * Gen.elev_rmin ≤ d2 then some ((height - corr y x) ^ 2 / d2) else none

theorem elevation2_eq (corr : ℤ → ℤ → ℚ) (h w : ℤ) (py px height : ℚ) :
    elevation2 corr h w py px height
      = if elevCands corr h w py px height = [] then none else some (minList (elevCands corr h w py px height)) := by
  unfold elevation2
  show (match elevCands corr h w py px height with | [] => none | c :: t => some (t.foldl (fun a b => rmin a b) c)) = _
  cases hc : elevCands corr h w py px height with
  | nil => simp
  | cons c t => simp [minList]

/-- **`Model.refineCenter` is the generated `refine_center` (which calls the generated
`center_of_mass`)**: same clip, same guard, same cut-out, same minimum subtraction, same moments. -/
theorem refineCenter_eq_gen (corr : ℤ → ℤ → ℚ) (h w cy cx r : ℤ) :
    refineCenter corr h w cy cx r = Gen.refine_center corr h w cy cx r := by
  unfold refineCenter Gen.refine_center Gen.center_of_mass Gen.refine_r Gen.refine_guard Gen.cut_lo Gen.cut_hi
    Gen.refined_coord
  simp only [decide_eq_true_eq]

theorem rmin_sq (a b : ℚ) (ha : 0 ≤ a) (hb : 0 ≤ b) : (rmin a b) ^ 2 = rmin (a ^ 2) (b ^ 2) := by
  unfold rmin
  by_cases h : a ≤ b
  · rw [if_pos h, if_pos (by nlinarith)]
  · rw [if_neg h, if_neg (by nlinarith)]

theorem rmin_nonneg (a b : ℚ) (ha : 0 ≤ a) (hb : 0 ≤ b) : 0 ≤ rmin a b := by
  unfold rmin; split_ifs <;> assumption

theorem foldl_rmin_sq (l : List ℚ) (a : ℚ) (ha : 0 ≤ a) (hl : ∀ v ∈ l, 0 ≤ v) :
    (l.foldl (fun a b => rmin a b) a) ^ 2 = (l.map (· ^ 2)).foldl (fun a b => rmin a b) (a ^ 2)
      ∧ 0 ≤ l.foldl (fun a b => rmin a b) a := by
  induction l generalizing a with
  | nil => exact ⟨rfl, ha⟩
  | cons x t ih =>
    simp only [List.foldl_cons, List.map_cons]
    have hx := hl x List.mem_cons_self
    have := ih (rmin a x) (rmin_nonneg a x ha hx) (fun v hv => hl v (List.mem_cons_of_mem _ hv))
    rw [rmin_sq a x ha hx] at this
    exact this

theorem minOpt_sq (l : List ℚ) (hl : ∀ v ∈ l, 0 ≤ v) :
    (optMax0 (minOpt l)).map (· ^ 2) = minOpt (l.map (· ^ 2)) := by
  cases l with
  | nil => rfl
  | cons c t =>
    have hc := hl c List.mem_cons_self
    obtain ⟨h1, h2⟩ := foldl_rmin_sq t c hc (fun v hv => hl v (List.mem_cons_of_mem _ hv))
    simp only [minOpt, optMax0, Option.map_some, List.map_cons]
    congr 1
    have : rmax 0 (t.foldl (fun a b => rmin a b) c) = t.foldl (fun a b => rmin a b) c := by
      unfold rmax; rw [if_pos h2]
    rw [this, h1]

theorem elevation2_eq_minOpt (corr : ℤ → ℤ → ℚ) (h w : ℤ) (py px height : ℚ) :
    elevation2 corr h w py px height = minOpt (elevCands corr h w py px height) := by
  unfold elevation2
  show (match elevCands corr h w py px height with | [] => none | c :: t => some (t.foldl (fun a b => rmin a b) c)) = _
  cases elevCands corr h w py px height <;> rfl

/-- the candidate slopes of the generated kernel (before squaring) -/
def genCands (sqrt : ℚ → ℚ) (corr : ℤ → ℤ → ℚ) (h w : ℤ) (py px height rmin_ : ℚ) : List ℚ :=
  (irange h).flatMap fun (y : ℤ) => (irange w).filterMap fun (x : ℤ) =>
    if (sqrt (((y : ℚ) - py) ^ 2 + ((x : ℚ) - px) ^ 2) ≥ rmin_) ∧ True
    then some ((height - corr y x) / sqrt (((y : ℚ) - py) ^ 2 + ((x : ℚ) - px) ^ 2)) else none

theorem gen_peak_elevation_eq (sqrt : ℚ → ℚ) (corr : ℤ → ℤ → ℚ) (h w : ℤ) (py px height rmin_ : ℚ) :
    Gen.peak_elevation corr h w sqrt py px height rmin_ = optMax0 (minOpt (genCands sqrt corr h w py px height rmin_)) := rfl

/-- **`Model.elevation2` is the square of the generated `peak_elevation`** for any function `sqrt`
that is a square root on the non-negative rationals that occur (`sqrt t ≥ 0`, `sqrt t · sqrt t = t`),
when `height` is an upper bound of the map (it is its maximum).  The model compares squares because
the rationals have no square roots; this theorem is what licenses that. -/
theorem elevation2_eq_gen_sq (sqrt : ℚ → ℚ) (hs : ∀ t : ℚ, 0 ≤ t → 0 ≤ sqrt t ∧ sqrt t * sqrt t = t)
    (corr : ℤ → ℤ → ℚ) (h w : ℤ) (py px height : ℚ)
    (hmax : ∀ y x : ℤ, 0 ≤ y → y < h → 0 ≤ x → x < w → corr y x ≤ height) :
    (Gen.peak_elevation corr h w sqrt py px height Gen.elev_rmin).map (· ^ 2) = elevation2 corr h w py px height := by
  rw [gen_peak_elevation_eq, elevation2_eq_minOpt]
  have hr : (0 : ℚ) ≤ Gen.elev_rmin := by unfold Gen.elev_rmin; norm_num
  have hrpos : (0 : ℚ) < Gen.elev_rmin := by unfold Gen.elev_rmin; norm_num
  -- cell-wise correspondence
  have hcell : ∀ y x : ℤ, 0 ≤ y → y < h → 0 ≤ x → x < w →
      ((if (sqrt (((y : ℚ) - py) ^ 2 + ((x : ℚ) - px) ^ 2) ≥ Gen.elev_rmin) ∧ True
        then some ((height - corr y x) / sqrt (((y : ℚ) - py) ^ 2 + ((x : ℚ) - px) ^ 2)) else none : Option ℚ).map (· ^ 2)
        = (if Gen.elev_rmin * Gen.elev_rmin ≤ ((y : ℚ) - py) ^ 2 + ((x : ℚ) - px) ^ 2
            then some ((height - corr y x) ^ 2 / (((y : ℚ) - py) ^ 2 + ((x : ℚ) - px) ^ 2)) else none))
      ∧ ∀ v, (if (sqrt (((y : ℚ) - py) ^ 2 + ((x : ℚ) - px) ^ 2) ≥ Gen.elev_rmin) ∧ True
        then some ((height - corr y x) / sqrt (((y : ℚ) - py) ^ 2 + ((x : ℚ) - px) ^ 2)) else none : Option ℚ) = some v → 0 ≤ v := by
    intro y x hy0 hy1 hx0 hx1
    set d2 := ((y : ℚ) - py) ^ 2 + ((x : ℚ) - px) ^ 2 with hd2
    have hd2nn : 0 ≤ d2 := by positivity
    obtain ⟨hsn, hss⟩ := hs d2 hd2nn
    have hiff : (sqrt d2 ≥ Gen.elev_rmin ∧ True) ↔ Gen.elev_rmin * Gen.elev_rmin ≤ d2 := by
      constructor
      · rintro ⟨hge, _⟩
        calc Gen.elev_rmin * Gen.elev_rmin ≤ sqrt d2 * sqrt d2 := mul_le_mul hge hge hr hsn
          _ = d2 := hss
      · intro hle
        refine ⟨?_, trivial⟩
        by_contra hlt
        push Not at hlt
        have : sqrt d2 * sqrt d2 < Gen.elev_rmin * Gen.elev_rmin := mul_lt_mul'' hlt hlt hsn hsn
        rw [hss] at this
        linarith
    by_cases hc : Gen.elev_rmin * Gen.elev_rmin ≤ d2
    · have hc' := hiff.mpr hc
      rw [if_pos hc', if_pos hc]
      have hpos : 0 < sqrt d2 := lt_of_lt_of_le hrpos hc'.1
      refine ⟨?_, ?_⟩
      · simp only [Option.map_some]
        congr 1
        rw [div_pow, sq (sqrt d2), hss]
      · intro v hv
        rw [← Option.some.inj hv]
        exact div_nonneg (by linarith [hmax y x hy0 hy1 hx0 hx1]) (le_of_lt hpos)
    · have hc' : ¬ (sqrt d2 ≥ Gen.elev_rmin ∧ True) := fun hh => hc (hiff.mp hh)
      rw [if_neg hc', if_neg hc]
      exact ⟨rfl, fun v hv => by cases hv⟩
  have hnonneg : ∀ v ∈ genCands sqrt corr h w py px height Gen.elev_rmin, 0 ≤ v := by
    intro v hv
    unfold genCands at hv
    simp only [List.mem_flatMap, List.mem_filterMap, mem_irange] at hv
    obtain ⟨y, hy, x, hx, hvx⟩ := hv
    exact (hcell y x hy.1 hy.2 hx.1 hx.2).2 v hvx
  have hmap : (genCands sqrt corr h w py px height Gen.elev_rmin).map (· ^ 2) = elevCands corr h w py px height := by
    unfold genCands elevCands
    rw [List.map_flatMap]
    apply List.flatMap_congr
    intro y hy
    rw [List.map_filterMap]
    apply List.filterMap_congr
    intro x hx
    rw [mem_irange] at hy hx
    exact (hcell y x hy.1 hy.2 hx.1 hx.2).1
  rw [minOpt_sq _ hnonneg, hmap]

end Model
