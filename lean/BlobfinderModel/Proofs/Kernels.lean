import BlobfinderModel.Proofs.Eval
/-!
The hand-written evaluation model (`Model.refineCenter`, `Model.elevation2`) against the kernels as
*generated from the source* (`Gen.center_of_mass`, `Gen.refine_center`, `Gen.peak_elevation`).
-/
namespace Model

/-- the candidate slopes of the elevation, as a list -/
def elevCands (corr : ℤ → ℤ → ℚ) (h w : ℤ) (py px height : ℚ) : List ℚ :=
  (irange h).flatMap fun (y : ℤ) => (irange w).filterMap fun (x : ℤ) =>
    let d2 := ((y : ℚ) - py) ^ 2 + ((x : ℚ) - px) ^ 2
    if Model.elev_rmin * Model.elev_rmin ≤ d2 then some ((height - corr y x) ^ 2 / d2) else none

theorem elevation2_eq (corr : ℤ → ℤ → ℚ) (h w : ℤ) (py px height : ℚ) :
    elevation2 corr h w py px height
      = if elevCands corr h w py px height = [] then none else some (minList (elevCands corr h w py px height)) := by
  unfold elevation2
  show (match elevCands corr h w py px height with | [] => none | c :: t => some (t.foldl (fun a b => rmin a b) c)) = _
  cases hc : elevCands corr h w py px height with
  | nil => simp
  | cons c t => simp [minList]

theorem rmin_sq (a b : ℚ) (ha : 0 ≤ a) (hb : 0 ≤ b) : (rmin a b) ^ 2 = rmin (a ^ 2) (b ^ 2) := by
  unfold rmin
  by_cases h : a ≤ b
  · rw [if_pos h, if_pos (by nlinarith)]
  · rw [if_neg h, if_neg (by nlinarith)]

theorem rmin_nonneg (a b : ℚ) (ha : 0 ≤ a) (hb : 0 ≤ b) : 0 ≤ rmin a b := by
  unfold rmin; split_ifs <;> assumption

theorem foldl_rmin_sq (l : List ℚ) (a : ℚ) (ha : 0 ≤ a) (hl : ∀ v ∈ l, 0 ≤ v) :
    (l.foldl (fun a b => rmin a b) a) ^ 2 = (l.map (· ^ 2)).foldl (fun a b => rmin a b) (a ^ 2)
      ∧ 0 ≤ l.foldl (fun a b => rmin a b) a := by
  induction l generalizing a with
  | nil => exact ⟨rfl, ha⟩
  | cons x t ih =>
    simp only [List.foldl_cons, List.map_cons]
    have hx := hl x List.mem_cons_self
    have := ih (rmin a x) (rmin_nonneg a x ha hx) (fun v hv => hl v (List.mem_cons_of_mem _ hv))
    rw [rmin_sq a x ha hx] at this
    exact this

theorem minOpt_sq (l : List ℚ) (hl : ∀ v ∈ l, 0 ≤ v) :
    (optMax0 (minOpt l)).map (· ^ 2) = minOpt (l.map (· ^ 2)) := by
  cases l with
  | nil => rfl
  | cons c t =>
    have hc := hl c List.mem_cons_self
    obtain ⟨h1, h2⟩ := foldl_rmin_sq t c hc (fun v hv => hl v (List.mem_cons_of_mem _ hv))
    simp only [minOpt, optMax0, Option.map_some, List.map_cons]
    congr 1
    have : rmax 0 (t.foldl (fun a b => rmin a b) c) = t.foldl (fun a b => rmin a b) c := by
      unfold rmax; rw [if_pos h2]
    rw [this, h1]

theorem elevation2_eq_minOpt (corr : ℤ → ℤ → ℚ) (h w : ℤ) (py px height : ℚ) :
    elevation2 corr h w py px height = minOpt (elevCands corr h w py px height) := by
  unfold elevation2
  show (match elevCands corr h w py px height with | [] => none | c :: t => some (t.foldl (fun a b => rmin a b) c)) = _
  cases elevCands corr h w py px height <;> rfl

end Model
