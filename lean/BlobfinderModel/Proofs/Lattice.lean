import BlobfinderModel.Proofs.Masks
import BlobfinderModel.Model.Lattice
import Mathlib.Tactic.LinearCombination
import Mathlib.Tactic.NormNum
/-! Helper lemmas for the weighted least-squares model (C06, C20, C05). -/
namespace Model

/-- the three residual sums in terms of the normal-equation sums -/
theorem resid_sums (z al be : ℚ) (l : List Obs) :
    (l.map fun o => o.w * resid z al be o).sum
        = (normalOf l).st - z * (normalOf l).s1 - al * (normalOf l).si - be * (normalOf l).sj ∧
    (l.map fun o => o.w * o.i * resid z al be o).sum
        = (normalOf l).sit - z * (normalOf l).si - al * (normalOf l).sii - be * (normalOf l).sij ∧
    (l.map fun o => o.w * o.j * resid z al be o).sum
        = (normalOf l).sjt - z * (normalOf l).sj - al * (normalOf l).sij - be * (normalOf l).sjj := by
  unfold normalOf
  simp only [lsum_eq_sum]
  induction l with
  | nil => simp
  | cons o t ih =>
    obtain ⟨h1, h2, h3⟩ := ih
    simp only [List.map_cons, List.sum_cons, h1, h2, h3]
    unfold resid
    refine ⟨by ring, by ring, by ring⟩

/-- expansion of the objective around a point satisfying nothing in particular -/
theorem wss_expand (z al be dz da db : ℚ) (l : List Obs) :
    (l.map fun o => o.w * (resid (z + dz) (al + da) (be + db) o) ^ 2).sum
      = (l.map fun o => o.w * (resid z al be o) ^ 2).sum
        - 2 * (dz * (l.map fun o => o.w * resid z al be o).sum
             + da * (l.map fun o => o.w * o.i * resid z al be o).sum
             + db * (l.map fun o => o.w * o.j * resid z al be o).sum)
        + (l.map fun o => o.w * (dz + o.i * da + o.j * db) ^ 2).sum := by
  induction l with
  | nil => simp
  | cons o t ih =>
    simp only [List.map_cons, List.sum_cons, ih]
    unfold resid
    ring

theorem sum_weighted_sq_nonneg (l : List Obs) (hw : ∀ o ∈ l, 0 ≤ o.w) (f : Obs → ℚ) :
    0 ≤ (l.map fun o => o.w * (f o) ^ 2).sum := by
  induction l with
  | nil => simp
  | cons o t ih =>
    simp only [List.map_cons, List.sum_cons]
    have h1 : 0 ≤ o.w * (f o) ^ 2 := mul_nonneg (hw o (List.mem_cons_self)) (sq_nonneg _)
    have h2 := ih (fun o' ho' => hw o' (List.mem_cons_of_mem _ ho'))
    linarith

end Model
