import BlobfinderModel.Model.Masks
import Mathlib.Tactic.Linarith
import Mathlib.Tactic.SplitIfs
import Mathlib.Tactic.FieldSimp
import Mathlib.Tactic.Ring
import Mathlib.Tactic.Positivity
import Mathlib.Algebra.Order.Field.Rat
import Mathlib.Algebra.BigOperators.Group.List.Basic
/-! Helper lemmas for the radial-bin model (C18, C16). -/
namespace Model

theorem lsum_eq_sum (l : List ℚ) : lsum l = l.sum := by
  unfold lsum
  rw [List.sum_eq_foldl]

theorem ramp_nonneg (t : ℚ) : 0 ≤ ramp t := by
  unfold ramp rmax rmin; split_ifs <;> linarith

theorem ramp_le_one (t : ℚ) : ramp t ≤ 1 := by
  unfold ramp rmax rmin; split_ifs <;> linarith

theorem ramp_eq_zero (t : ℚ) (h : t ≤ 0) : ramp t = 0 := by
  unfold ramp rmax rmin; split_ifs <;> linarith

theorem ramp_eq_one (t : ℚ) (h : 1 ≤ t) : ramp t = 1 := by
  unfold ramp rmax rmin; split_ifs <;> linarith

theorem ramp_mono (s t : ℚ) (h : s ≤ t) : ramp s ≤ ramp t := by
  unfold ramp rmax rmin; split_ifs <;> linarith

/-- The generated bin value is the difference of two edge ramps when the bin is at least one
pixel wide: `e` is the inner edge of the bin, `e + w` its outer edge. -/
theorem binVal_eq_ramp_sub (w e r : ℚ) (hw : 1 ≤ w) :
    Gen.bin_val w (e + w / 2) r = ramp (r - e + 1 / 2) - ramp (r - (e + w) + 1 / 2) := by
  unfold Gen.bin_val ramp rmax rmin rabs
  simp only []
  split_ifs <;> linarith

theorem bin_val_nonneg (w r0 r : ℚ) : 0 ≤ Gen.bin_val w r0 r := by
  unfold Gen.bin_val rmax rmin rabs; simp only []; split_ifs <;> linarith

theorem bin_val_le_one (w r0 r : ℚ) : Gen.bin_val w r0 r ≤ 1 := by
  unfold Gen.bin_val rmax rmin rabs; simp only []; split_ifs <;> linarith

/-- telescoping sum of edge-ramp differences -/
theorem sum_ramp_telescope (ri w r : ℚ) (n : ℕ) :
    ((List.range n).map fun k : ℕ =>
        ramp (r - (ri + (k : ℚ) * w) + 1 / 2) - ramp (r - (ri + (k : ℚ) * w + w) + 1 / 2)).sum
      = ramp (r - ri + 1 / 2) - ramp (r - (ri + (n : ℚ) * w) + 1 / 2) := by
  induction n with
  | zero => simp
  | succ n ih =>
    rw [List.range_succ, List.map_append, List.sum_append, ih]
    simp only [List.map_cons, List.map_nil, List.sum_cons, List.sum_nil, Nat.cast_succ]
    have : ri + ((n : ℚ) + 1) * w = ri + (n : ℚ) * w + w := by ring
    rw [this]; ring

end Model
