import BlobfinderModel.Proofs.Rank
import Mathlib.Tactic.FieldSimp
/-!
How noise in the observed positions propagates through the weighted least-squares fit:
energy identity at the optimum, a Cauchy–Schwarz inequality for the Gram (normal) matrix, and the
resulting bound on the predicted position of any lattice node.
-/
namespace Model

/-- **Cauchy–Schwarz for the normal matrix** `N = Σ w u uᵀ` (non-negative weights):
`det N · (x·v)² ≤ (vᵀ adj(N) v) · (xᵀ N x)` for all `x`, `v` — the division-free form of
`(x·v)² ≤ (vᵀ N⁻¹ v)(xᵀ N x)`, valid for singular `N` too. -/
theorem gram_cauchy (l : List Obs) (hw : ∀ o ∈ l, 0 ≤ o.w) (x1 x2 x3 v1 v2 v3 : ℚ) :
    (normalOf l).det * (x1 * v1 + x2 * v2 + x3 * v3) ^ 2
      ≤ (normalOf l).adjq v1 v2 v3 * (normalOf l).quad x1 x2 x3 := by
  have hq := quad_nonneg l hw
  have hC := adjq_nonneg l hw v1 v2 v3
  have hD := det_nonneg l hw
  generalize normalOf l = n at *
  -- y = adj(N) v
  set y1 := (n.sii * n.sjj - n.sij * n.sij) * v1 + (n.sj * n.sij - n.si * n.sjj) * v2
    + (n.si * n.sij - n.sii * n.sj) * v3 with hy1
  set y2 := (n.sj * n.sij - n.si * n.sjj) * v1 + (n.s1 * n.sjj - n.sj * n.sj) * v2
    + (n.si * n.sj - n.s1 * n.sij) * v3 with hy2
  set y3 := (n.si * n.sij - n.sii * n.sj) * v1 + (n.si * n.sj - n.s1 * n.sij) * v2
    + (n.s1 * n.sii - n.si * n.si) * v3 with hy3
  set A := n.quad x1 x2 x3 with hA
  set B := x1 * v1 + x2 * v2 + x3 * v3 with hB
  set C := n.adjq v1 v2 v3 with hCdef
  set D := n.det with hDdef
  have key : ∀ s t : ℚ, n.quad (s * x1 + t * y1) (s * x2 + t * y2) (s * x3 + t * y3)
      = s ^ 2 * A + 2 * s * t * (D * B) + t ^ 2 * (D * C) := by
    intro s t
    rw [hA, hB, hCdef, hDdef, hy1, hy2, hy3]
    unfold Normal.quad Normal.adjq Normal.det det3
    ring
  rcases lt_or_eq_of_le hC with hpos | hzero
  · -- C > 0: take s = C, t = -B
    have h := hq (C * x1 + (-B) * y1) (C * x2 + (-B) * y2) (C * x3 + (-B) * y3)
    rw [key] at h
    have h2 : 0 ≤ C * (C * A - D * B ^ 2) := by nlinarith
    have h3 : 0 ≤ C * A - D * B ^ 2 := by
      by_contra hneg
      push Not at hneg
      have := mul_neg_of_pos_of_neg hpos hneg
      linarith
    linarith
  · -- C = 0: then D * B = 0
    have hDB : D * B = 0 := by
      by_contra hne
      set w := D * B with hwdef
      have hw0 : w ≠ 0 := hne
      have h := hq (1 * x1 + (-(A + 1) / (2 * w)) * y1) (1 * x2 + (-(A + 1) / (2 * w)) * y2)
        (1 * x3 + (-(A + 1) / (2 * w)) * y3)
      rw [key, ← hzero] at h
      have e : (1 : ℚ) ^ 2 * A + 2 * 1 * (-(A + 1) / (2 * w)) * w
          + (-(A + 1) / (2 * w)) ^ 2 * (D * 0) = -1 := by
        field_simp
        ring
      rw [e] at h
      linarith
    rw [← hzero, zero_mul]
    have : D * B ^ 2 = (D * B) * B := by ring
    rw [this, hDB, zero_mul]

/-- **energy identity at the optimum**: for a solution of the normal equations the objective at any
other parameters exceeds the optimum by the quadratic form of the parameter difference -/
theorem fit_energy (l : List Obs) (z' al' be' : ℚ) (hN : NormalEqs z' al' be' l) (z al be : ℚ) :
    wss z al be l = wss z' al' be' l + (normalOf l).quad (z - z') (al - al') (be - be') := by
  unfold wss
  simp only [lsum_eq_sum]
  have e := wss_expand z' al' be' (z - z') (al - al') (be - be') l
  have ez : z' + (z - z') = z := by ring
  have ea : al' + (al - al') = al := by ring
  have eb : be' + (be - be') = be := by ring
  rw [ez, ea, eb] at e
  unfold NormalEqs at hN
  simp only [lsum_eq_sum] at hN
  rw [e, hN.1, hN.2.1, hN.2.2, quad_normalOf]
  ring

/-- the objective at the true parameters is at most `ε² Σ w` when every residual is at most `ε` -/
theorem wss_le_of_noise (l : List Obs) (hw : ∀ o ∈ l, 0 ≤ o.w) (z al be eps : ℚ)
    (hn : ∀ o ∈ l, |resid z al be o| ≤ eps) : wss z al be l ≤ eps ^ 2 * (normalOf l).s1 := by
  unfold wss normalOf
  simp only [lsum_eq_sum]
  induction l with
  | nil => simp
  | cons o t ih =>
    simp only [List.map_cons, List.sum_cons]
    have h1 := ih (fun p hp => hw p (List.mem_cons_of_mem _ hp)) (fun p hp => hn p (List.mem_cons_of_mem _ hp))
    have h2 : (resid z al be o) ^ 2 ≤ eps ^ 2 := by
      have := hn o List.mem_cons_self
      rw [← sq_abs (resid z al be o)]
      exact pow_le_pow_left₀ (abs_nonneg _) this 2
    have h3 := mul_le_mul_of_nonneg_left h2 (hw o List.mem_cons_self)
    nlinarith

theorem wss_nonneg (l : List Obs) (hw : ∀ o ∈ l, 0 ≤ o.w) (z al be : ℚ) : 0 ≤ wss z al be l := by
  unfold wss
  rw [lsum_eq_sum]
  exact sum_weighted_sq_nonneg l hw _

/-- **Noise propagation through the fit.**  Observations `t = z + i α + j β + e` with `|e| ≤ ε`,
non-negative weights; `(z', α', β')` any solution of the normal equations.  Then the position the
fit predicts for **any** node `(i, j)` (selected or not, integer or not) deviates from the true one by
`d` with  `det N · d² ≤ vᵀ adj(N) v · ε² Σw`,  `v = (1, i, j)` — i.e. `|d| ≤ ε sqrt(Σw · vᵀ N⁻¹ v)`. -/
theorem fit_prediction_error (l : List Obs) (hw : ∀ o ∈ l, 0 ≤ o.w) (z al be eps : ℚ)
    (hn : ∀ o ∈ l, |resid z al be o| ≤ eps) (z' al' be' : ℚ) (hN : NormalEqs z' al' be' l) (i j : ℚ) :
    (normalOf l).det * ((z' + i * al' + j * be') - (z + i * al + j * be)) ^ 2
      ≤ (normalOf l).adjq 1 i j * (eps ^ 2 * (normalOf l).s1) := by
  have hE := fit_energy l z' al' be' hN z al be
  have h1 := wss_le_of_noise l hw z al be eps hn
  have h2 := wss_nonneg l hw z' al' be'
  have hq : (normalOf l).quad (z - z') (al - al') (be - be') ≤ eps ^ 2 * (normalOf l).s1 := by linarith
  have hC := adjq_nonneg l hw 1 i j
  have hcs := gram_cauchy l hw (z - z') (al - al') (be - be') 1 i j
  have e : ((z' + i * al' + j * be') - (z + i * al + j * be)) ^ 2
      = ((z - z') * 1 + (al - al') * i + (be - be') * j) ^ 2 := by ring
  rw [e]
  calc _ ≤ (normalOf l).adjq 1 i j * (normalOf l).quad (z - z') (al - al') (be - be') := hcs
    _ ≤ _ := mul_le_mul_of_nonneg_left hq hC

/-- **leverage ≤ 1**: for an observation of the list, `w · vᵀ adj(N) v ≤ det N` with its own `v = (1, i, j)` -/
theorem leverage_le (l : List Obs) (hw : ∀ o ∈ l, 0 ≤ o.w) (o : Obs) (ho : o ∈ l) :
    o.w * (normalOf l).adjq 1 o.i o.j ≤ (normalOf l).det := by
  obtain ⟨s, t, rfl⟩ := List.append_of_mem ho
  have hp : (s ++ o :: t).Perm (o :: (s ++ t)) := List.perm_middle
  rw [normalOf_perm hp]
  have hw' : ∀ p ∈ s ++ t, 0 ≤ p.w := by
    intro p hp'
    apply hw
    rcases List.mem_append.mp hp' with h | h
    · exact List.mem_append_left _ h
    · exact List.mem_append_right _ (List.mem_cons_of_mem _ h)
  have h1 := det_cons o (s ++ t)
  have h2 := adjq_cons o (s ++ t) 1 o.i o.j
  have h3 := det_nonneg (s ++ t) hw'
  have z : (normalOf (s ++ t)).quad (o.i * o.j - o.j * o.i) (o.j * 1 - o.j) (o.i - o.i * 1) = 0 := by
    have e1 : o.i * o.j - o.j * o.i = 0 := by ring
    have e2 : o.j * 1 - o.j = 0 := by ring
    have e3 : o.i - o.i * 1 = 0 := by ring
    rw [e1, e2, e3]
    unfold Normal.quad
    ring
  rw [z, mul_zero, add_zero] at h2
  rw [h1, h2]
  linarith

/-- at a node that takes part in the fit the prediction error obeys `w d² ≤ ε² Σw` (rank 3) -/
theorem fit_error_at_observation (l : List Obs) (hw : ∀ o ∈ l, 0 ≤ o.w) (z al be eps : ℚ)
    (hn : ∀ o ∈ l, |resid z al be o| ≤ eps) (z' al' be' : ℚ) (hN : NormalEqs z' al' be' l)
    (hd : (normalOf l).det ≠ 0) (o : Obs) (ho : o ∈ l) :
    o.w * ((z' + o.i * al' + o.j * be') - (z + o.i * al + o.j * be)) ^ 2 ≤ eps ^ 2 * (normalOf l).s1 := by
  have h1 := fit_prediction_error l hw z al be eps hn z' al' be' hN o.i o.j
  have h2 := leverage_le l hw o ho
  have hD : 0 < (normalOf l).det := lt_of_le_of_ne (det_nonneg l hw) (Ne.symm hd)
  have hs1 : 0 ≤ eps ^ 2 * (normalOf l).s1 := by
    have := wss_le_of_noise l hw z al be eps hn
    have := wss_nonneg l hw z al be
    linarith
  set x := ((z' + o.i * al' + o.j * be') - (z + o.i * al + o.j * be)) ^ 2 with hx
  have hwo := hw o ho
  -- det * (w x) ≤ (w adjq) * R ≤ det * R
  have h3 : (normalOf l).det * (o.w * x) ≤ (normalOf l).det * (eps ^ 2 * (normalOf l).s1) := by
    calc (normalOf l).det * (o.w * x) = o.w * ((normalOf l).det * x) := by ring
      _ ≤ o.w * ((normalOf l).adjq 1 o.i o.j * (eps ^ 2 * (normalOf l).s1)) :=
          mul_le_mul_of_nonneg_left h1 hwo
      _ = (o.w * (normalOf l).adjq 1 o.i o.j) * (eps ^ 2 * (normalOf l).s1) := by ring
      _ ≤ (normalOf l).det * (eps ^ 2 * (normalOf l).s1) := mul_le_mul_of_nonneg_right h2 hs1
  exact le_of_mul_le_mul_left h3 hD

end Model
