import BlobfinderModel.Proofs.Eval
import BlobfinderModel.Model.Pipeline
import BlobfinderModel.Properties.C03
/-!
Locality of the pipeline stages: each stage of the model reads only the cells of its `h × w` input
(congruence lemmas).  They discharge the `EvalLocal` hypothesis of C09 for the concrete composed
pipeline and carry the translation / offset theorems of C14.
-/
namespace Model

def AgreeOn (f g : ℤ → ℤ → ℚ) (h w : ℤ) : Prop :=
  ∀ y x, 0 ≤ y → y < h → 0 ≤ x → x < w → f y x = g y x

theorem flat_congr (f g : ℤ → ℤ → ℚ) (n m : ℤ) (hag : AgreeOn f g n m) : flat f n m = flat g n m := by
  unfold flat
  apply List.flatMap_congr
  intro y hy
  apply List.map_congr_left
  intro x hx
  rw [mem_irange] at hy hx
  exact hag y x hy.1 hy.2 hx.1 hx.2

theorem lsum_map_congr {ι : Type} (l : List ι) (f g : ι → ℚ) (h : ∀ a ∈ l, f a = g a) :
    lsum (l.map f) = lsum (l.map g) := by
  rw [List.map_congr_left h]

/-- the correlation map reads `data` only at indices reduced modulo the size -/
theorem corrMap_congr (kind : String) (mask data data' : ℤ → ℤ → ℚ) (h w : ℤ) (hh : 0 < h) (hw : 0 < w)
    (hag : AgreeOn data data' h w) (y x : ℤ) :
    corrMap kind mask data h w y x = corrMap kind mask data' h w y x := by
  unfold corrMap
  simp only []
  apply lsum_map_congr
  intro my _
  apply lsum_map_congr
  intro mx _
  rw [hag _ _ (Int.emod_nonneg _ (by omega)) (Int.emod_lt_of_pos _ hh)
    (Int.emod_nonneg _ (by omega)) (Int.emod_lt_of_pos _ hw)]

/-- log scaling of a crop reads only the crop's cells -/
theorem logCrop_congr (L : ℚ → ℚ) (crop crop' : ℤ → ℤ → ℚ) (h w : ℤ) (hag : AgreeOn crop crop' h w) :
    AgreeOn (logCrop L crop h w) (logCrop L crop' h w) h w := by
  intro y x hy0 hy1 hx0 hx1
  unfold logCrop
  rw [flat_congr crop crop' h w hag, hag y x hy0 hy1 hx0 hx1]

theorem refineCenter_congr (corr corr' : ℤ → ℤ → ℚ) (h w cy cx : ℤ) (hy : 0 ≤ cy ∧ cy < h) (hx : 0 ≤ cx ∧ cx < w)
    (hag : AgreeOn corr corr' h w) :
    refineCenter corr h w cy cx Model.refine_radius = refineCenter corr' h w cy cx Model.refine_radius := by
  unfold refineCenter
  simp only []
  have hb := C03.refine_cut_in_bounds cy cx h w hy hx
  simp only [] at hb
  set r := Model.refine_r Model.refine_radius cy cx h w with hr
  by_cases hg : Model.refine_guard r = true
  · rw [if_pos hg, if_pos hg]
  · rw [if_neg hg, if_neg hg]
    have hgf : Model.refine_guard r = false := by simpa using hg
    obtain ⟨hr0, hr2, hcut⟩ := hb
    obtain ⟨hly, hhy, hlx, hhx, hny, hnx⟩ := hcut hgf
    have hcutag : AgreeOn (fun y x => corr (Model.cut_lo cy r + y) (Model.cut_lo cx r + x))
        (fun y x => corr' (Model.cut_lo cy r + y) (Model.cut_lo cx r + x))
        (Model.cut_hi cy r - Model.cut_lo cy r) (Model.cut_hi cx r - Model.cut_lo cx r) := by
      intro y x hy0 hy1 hx0 hx1
      exact hag _ _ (by omega) (by omega) (by omega) (by omega)
    have hmin := flat_congr _ _ _ _ hcutag
    rw [hmin]
    have e1 : ∀ (φ : ℤ → ℤ → ℚ → ℚ),
        flat (fun y x => φ y x (corr (Model.cut_lo cy r + y) (Model.cut_lo cx r + x)))
          (Model.cut_hi cy r - Model.cut_lo cy r) (Model.cut_hi cx r - Model.cut_lo cx r)
        = flat (fun y x => φ y x (corr' (Model.cut_lo cy r + y) (Model.cut_lo cx r + x)))
          (Model.cut_hi cy r - Model.cut_lo cy r) (Model.cut_hi cx r - Model.cut_lo cx r) := by
      intro φ
      apply flat_congr
      intro y x hy0 hy1 hx0 hx1
      have hh := hcutag y x hy0 hy1 hx0 hx1
      simp only [] at hh ⊢
      rw [hh]
    set mn := minList (flat (fun y x => corr' (Model.cut_lo cy r + y) (Model.cut_lo cx r + x))
      (Model.cut_hi cy r - Model.cut_lo cy r) (Model.cut_hi cx r - Model.cut_lo cx r)) with hmn
    rw [e1 (fun _ _ v => v - mn), e1 (fun y _ v => (v - mn) * (y : ℚ)), e1 (fun _ x v => (v - mn) * (x : ℚ))]

theorem elevation2_congr (corr corr' : ℤ → ℤ → ℚ) (h w : ℤ) (py px height : ℚ) (hag : AgreeOn corr corr' h w) :
    elevation2 corr h w py px height = elevation2 corr' h w py px height := by
  unfold elevation2
  have : ((irange h).flatMap fun (y : ℤ) => (irange w).filterMap fun (x : ℤ) =>
        if Model.elev_rmin * Model.elev_rmin ≤ ((y : ℚ) - py) ^ 2 + ((x : ℚ) - px) ^ 2
        then some ((height - corr y x) ^ 2 / (((y : ℚ) - py) ^ 2 + ((x : ℚ) - px) ^ 2)) else none)
      = ((irange h).flatMap fun (y : ℤ) => (irange w).filterMap fun (x : ℤ) =>
        if Model.elev_rmin * Model.elev_rmin ≤ ((y : ℚ) - py) ^ 2 + ((x : ℚ) - px) ^ 2
        then some ((height - corr' y x) ^ 2 / (((y : ℚ) - py) ^ 2 + ((x : ℚ) - px) ^ 2)) else none) := by
    apply List.flatMap_congr
    intro y hy
    apply List.filterMap_congr
    intro x hx
    rw [mem_irange] at hy hx
    rw [hag y x hy.1 hy.2 hx.1 hx.2]
  simp only [] at this ⊢
  rw [this]

theorem EvalOut.ext' (a b : EvalOut) (h1 : a.cy = b.cy) (h2 : a.cx = b.cx) (h3 : a.height = b.height)
    (h4 : a.ry = b.ry) (h5 : a.rx = b.rx) (h6 : a.elev2 = b.elev2) : a = b := by
  cases a; cases b; simp_all

/-- **the evaluation kernels read only the `n × m` cells of the map they are given** -/
theorem evaluate_congr (corr corr' : ℤ → ℤ → ℚ) (n m : ℕ) (hn : 0 < n) (hm : 0 < m)
    (hag : AgreeOn corr corr' n m) : evaluate corr n m = evaluate corr' n m := by
  obtain ⟨hcy, hcx, _, _, _⟩ := C03.evaluate_center_is_max corr n m hn hm
  have hflat := flat_congr corr corr' n m hag
  have hidx : argmaxFirst (flat corr n m) = argmaxFirst (flat corr' n m) := by rw [hflat]
  have ecy : (evaluate corr n m).cy = (evaluate corr' n m).cy := by
    show ((argmaxFirst (flat corr n m) : ℕ) : ℤ) / (m : ℤ) = ((argmaxFirst (flat corr' n m) : ℕ) : ℤ) / (m : ℤ)
    rw [hidx]
  have ecx : (evaluate corr n m).cx = (evaluate corr' n m).cx := by
    show ((argmaxFirst (flat corr n m) : ℕ) : ℤ) % (m : ℤ) = ((argmaxFirst (flat corr' n m) : ℕ) : ℤ) % (m : ℤ)
    rw [hidx]
  have eh : (evaluate corr n m).height = (evaluate corr' n m).height := by
    show corr (evaluate corr n m).cy (evaluate corr n m).cx = corr' (evaluate corr' n m).cy (evaluate corr' n m).cx
    rw [← ecy, ← ecx]
    exact hag _ _ hcy.1 hcy.2 hcx.1 hcx.2
  have erf : refineCenter corr n m (evaluate corr n m).cy (evaluate corr n m).cx Model.refine_radius
      = refineCenter corr' n m (evaluate corr' n m).cy (evaluate corr' n m).cx Model.refine_radius := by
    rw [← ecy, ← ecx]
    exact refineCenter_congr corr corr' n m _ _ hcy hcx hag
  have hry : (evaluate corr n m).ry = (refineCenter corr n m (evaluate corr n m).cy (evaluate corr n m).cx Model.refine_radius).1 := rfl
  have hrx : (evaluate corr n m).rx = (refineCenter corr n m (evaluate corr n m).cy (evaluate corr n m).cx Model.refine_radius).2 := rfl
  have hry' : (evaluate corr' n m).ry = (refineCenter corr' n m (evaluate corr' n m).cy (evaluate corr' n m).cx Model.refine_radius).1 := rfl
  have hrx' : (evaluate corr' n m).rx = (refineCenter corr' n m (evaluate corr' n m).cy (evaluate corr' n m).cx Model.refine_radius).2 := rfl
  have hel : (evaluate corr n m).elev2 = elevation2 corr n m (evaluate corr n m).ry (evaluate corr n m).rx (evaluate corr n m).height := rfl
  have hel' : (evaluate corr' n m).elev2 = elevation2 corr' n m (evaluate corr' n m).ry (evaluate corr' n m).rx (evaluate corr' n m).height := rfl
  have ery : (evaluate corr n m).ry = (evaluate corr' n m).ry := by rw [hry, hry', erf]
  have erx : (evaluate corr n m).rx = (evaluate corr' n m).rx := by rw [hrx, hrx', erf]
  have eel : (evaluate corr n m).elev2 = (evaluate corr' n m).elev2 := by
    rw [hel, hel', ery, erx, eh]
    exact elevation2_congr corr corr' n m _ _ _ hag
  exact EvalOut.ext' _ _ ecy ecx eh ery erx eel

/-- `fastPeak` / `fullPeak` are the per-crop functions applied to the crop, re-anchored -/
theorem fastPeak_eq (L : ℚ → ℚ) (mask frame : ℤ → ℤ → ℚ) (fy fx c : ℤ) (p : ℤ × ℤ) :
    fastPeak L mask frame fy fx c p
      = reanchor (fastEval L mask c (fun y x => cropPixel frame fy fx c p.1 p.2 y x)) p.1 p.2 c := rfl

theorem fullPeak_eq (L : ℚ → ℚ) (mask frame : ℤ → ℤ → ℚ) (fy fx c : ℤ) (p : ℤ × ℤ) :
    fullPeak L mask frame fy fx c p
      = reanchor (fullEval c (fun y x => cropPixel (fullCorr L mask frame fy fx) fy fx c p.1 p.2 y x)) p.1 p.2 c := rfl

/-- **the per-crop pipeline of the crop-based method reads only the `2c × 2c` cells of its crop** -/
theorem fastEval_congr (L : ℚ → ℚ) (mask : ℤ → ℤ → ℚ) (c : ℕ) (hc : 0 < c) (crop crop' : ℤ → ℤ → ℚ)
    (hag : AgreeOn crop crop' (2 * c) (2 * c)) : fastEval L mask c crop = fastEval L mask c crop' := by
  unfold fastEval
  have hcast : (2 * (c : ℤ)) = ((2 * c : ℕ) : ℤ) := by push_cast; ring
  have hpos : 0 < 2 * c := by omega
  have hl := logCrop_congr L crop crop' (2 * c) (2 * c) hag
  rw [hcast] at hl ⊢
  apply evaluate_congr _ _ (2 * c) (2 * c) hpos hpos
  intro y x _ _ _ _
  exact corrMap_congr _ mask _ _ _ _ (by exact_mod_cast hpos) (by exact_mod_cast hpos) hl y x

theorem fullEval_congr (c : ℕ) (hc : 0 < c) (crop crop' : ℤ → ℤ → ℚ)
    (hag : AgreeOn crop crop' (2 * c) (2 * c)) : fullEval c crop = fullEval c crop' := by
  unfold fullEval
  have hcast : (2 * (c : ℤ)) = ((2 * c : ℕ) : ℤ) := by push_cast; ring
  rw [hcast] at hag ⊢
  exact evaluate_congr _ _ (2 * c) (2 * c) (by omega) (by omega) hag

end Model
