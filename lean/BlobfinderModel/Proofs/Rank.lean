import BlobfinderModel.Proofs.Lattice
import Mathlib.Tactic.Ring
import Mathlib.Tactic.Linarith
import Mathlib.Tactic.Positivity
import Mathlib.Algebra.BigOperators.Group.List.Basic
/-!
Rank of the weighted design `[1, i, j]` never drops when observations with non-negative weights are
added: the determinant of the normal matrix is non-negative and monotone under taking super-lists
(matrix determinant lemma + the adjugate of a Gram matrix is positive semi-definite), and a fit whose
observations all have zero residual returns the generating parameters exactly.
-/
namespace Model

/-- the quadratic form `xᵀ N x` of the normal matrix -/
def Normal.quad (n : Normal) (x1 x2 x3 : ℚ) : ℚ :=
  n.s1 * x1 * x1 + n.sii * x2 * x2 + n.sjj * x3 * x3
    + 2 * n.si * x1 * x2 + 2 * n.sj * x1 * x3 + 2 * n.sij * x2 * x3

/-- `vᵀ adj(N) v` -/
def Normal.adjq (n : Normal) (v1 v2 v3 : ℚ) : ℚ :=
  (n.sii * n.sjj - n.sij * n.sij) * v1 * v1 + (n.s1 * n.sjj - n.sj * n.sj) * v2 * v2
    + (n.s1 * n.sii - n.si * n.si) * v3 * v3
    + 2 * (n.sj * n.sij - n.si * n.sjj) * v1 * v2 + 2 * (n.si * n.sij - n.sii * n.sj) * v1 * v3
    + 2 * (n.si * n.sj - n.s1 * n.sij) * v2 * v3

theorem lsum_cons (x : ℚ) (l : List ℚ) : lsum (x :: l) = x + lsum l := by
  simp only [lsum_eq_sum, List.sum_cons]

/-- the six design sums after adding one observation in front -/
theorem normalOf_cons (o : Obs) (l : List Obs) :
    (normalOf (o :: l)).s1 = o.w + (normalOf l).s1 ∧
    (normalOf (o :: l)).si = o.w * o.i + (normalOf l).si ∧
    (normalOf (o :: l)).sj = o.w * o.j + (normalOf l).sj ∧
    (normalOf (o :: l)).sii = o.w * o.i * o.i + (normalOf l).sii ∧
    (normalOf (o :: l)).sij = o.w * o.i * o.j + (normalOf l).sij ∧
    (normalOf (o :: l)).sjj = o.w * o.j * o.j + (normalOf l).sjj := by
  unfold normalOf
  simp only [List.map_cons, lsum_cons, and_self]

theorem normalOf_nil_det : (normalOf []).det = 0 := by
  unfold normalOf Normal.det det3 lsum
  simp

/-- `xᵀ N x = Σ w (x₁ + i x₂ + j x₃)²` -/
theorem quad_normalOf (l : List Obs) (x1 x2 x3 : ℚ) :
    (normalOf l).quad x1 x2 x3 = (l.map fun o => o.w * (x1 + o.i * x2 + o.j * x3) ^ 2).sum := by
  induction l with
  | nil => unfold Normal.quad normalOf lsum; simp
  | cons o t ih =>
    obtain ⟨h1, h2, h3, h4, h5, h6⟩ := normalOf_cons o t
    rw [List.map_cons, List.sum_cons, ← ih]
    unfold Normal.quad
    rw [h1, h2, h3, h4, h5, h6]
    ring

theorem quad_nonneg (l : List Obs) (hw : ∀ o ∈ l, 0 ≤ o.w) (x1 x2 x3 : ℚ) :
    0 ≤ (normalOf l).quad x1 x2 x3 := by
  rw [quad_normalOf]
  apply List.sum_nonneg
  intro x hx
  obtain ⟨o, ho, rfl⟩ := List.mem_map.mp hx
  have := hw o ho
  positivity

/-- the adjugate form after adding one observation `u = (1, i, j)` with weight `w`:
`vᵀ adj(N + w u uᵀ) v = vᵀ adj(N) v + w (u × v)ᵀ N (u × v)` -/
theorem adjq_cons (o : Obs) (l : List Obs) (v1 v2 v3 : ℚ) :
    (normalOf (o :: l)).adjq v1 v2 v3 = (normalOf l).adjq v1 v2 v3
      + o.w * (normalOf l).quad (o.i * v3 - o.j * v2) (o.j * v1 - v3) (v2 - o.i * v1) := by
  obtain ⟨h1, h2, h3, h4, h5, h6⟩ := normalOf_cons o l
  unfold Normal.adjq Normal.quad
  rw [h1, h2, h3, h4, h5, h6]
  ring

theorem adjq_nonneg (l : List Obs) (hw : ∀ o ∈ l, 0 ≤ o.w) (v1 v2 v3 : ℚ) :
    0 ≤ (normalOf l).adjq v1 v2 v3 := by
  induction l generalizing v1 v2 v3 with
  | nil => unfold Normal.adjq normalOf lsum; simp
  | cons o t ih =>
    rw [adjq_cons]
    have h1 := ih (fun p hp => hw p (List.mem_cons_of_mem _ hp)) v1 v2 v3
    have h2 := quad_nonneg t (fun p hp => hw p (List.mem_cons_of_mem _ hp))
      (o.i * v3 - o.j * v2) (o.j * v1 - v3) (v2 - o.i * v1)
    have h3 := hw o (List.mem_cons_self)
    have := mul_nonneg h3 h2
    linarith

/-- matrix determinant lemma for one more observation -/
theorem det_cons (o : Obs) (l : List Obs) :
    (normalOf (o :: l)).det = (normalOf l).det + o.w * (normalOf l).adjq 1 o.i o.j := by
  obtain ⟨h1, h2, h3, h4, h5, h6⟩ := normalOf_cons o l
  unfold Normal.det det3 Normal.adjq
  rw [h1, h2, h3, h4, h5, h6]
  ring

/-- **one more observation with non-negative weight never lowers the determinant** -/
theorem det_cons_ge (o : Obs) (l : List Obs) (ho : 0 ≤ o.w) (hw : ∀ p ∈ l, 0 ≤ p.w) :
    (normalOf l).det ≤ (normalOf (o :: l)).det := by
  rw [det_cons]
  have := mul_nonneg ho (adjq_nonneg l hw 1 o.i o.j)
  linarith

theorem det_nonneg (l : List Obs) (hw : ∀ p ∈ l, 0 ≤ p.w) : 0 ≤ (normalOf l).det := by
  induction l with
  | nil => rw [normalOf_nil_det]
  | cons o t ih =>
    have h1 := ih (fun p hp => hw p (List.mem_cons_of_mem _ hp))
    have h2 := det_cons_ge o t (hw o List.mem_cons_self) (fun p hp => hw p (List.mem_cons_of_mem _ hp))
    linarith

theorem det_append_ge (m l : List Obs) (hm : ∀ p ∈ m, 0 ≤ p.w) (hl : ∀ p ∈ l, 0 ≤ p.w) :
    (normalOf l).det ≤ (normalOf (m ++ l)).det := by
  induction m with
  | nil => simp
  | cons o t ih =>
    have h1 := ih (fun p hp => hm p (List.mem_cons_of_mem _ hp))
    have h2 := det_cons_ge o (t ++ l) (hm o List.mem_cons_self) (by
      intro p hp
      rcases List.mem_append.mp hp with h | h
      · exact hm p (List.mem_cons_of_mem _ h)
      · exact hl p h)
    rw [List.cons_append]
    linarith

/-- the normal sums do not depend on the order of the observations -/
theorem normalOf_perm {l l' : List Obs} (h : l.Perm l') : normalOf l = normalOf l' := by
  unfold normalOf
  simp only [lsum_eq_sum]
  rw [(h.map _).sum_eq, (h.map fun o => o.w * o.i).sum_eq, (h.map fun o => o.w * o.j).sum_eq,
    (h.map fun o => o.w * o.i * o.i).sum_eq, (h.map fun o => o.w * o.i * o.j).sum_eq,
    (h.map fun o => o.w * o.j * o.j).sum_eq, (h.map fun o => o.w * o.t).sum_eq,
    (h.map fun o => o.w * o.i * o.t).sum_eq, (h.map fun o => o.w * o.j * o.t).sum_eq]

/-- **Rank is monotone**: a super-list of observations (non-negative weights) has a determinant at
least as large; in particular a rank-3 selection stays rank 3 when more peaks are added. -/
theorem det_mono_sublist {l l' : List Obs} (h : l.Sublist l') (hw : ∀ p ∈ l', 0 ≤ p.w) :
    (normalOf l).det ≤ (normalOf l').det := by
  obtain ⟨m, hm⟩ := h.exists_perm_append
  have hp : l'.Perm (m ++ l) := hm.trans List.perm_append_comm
  rw [normalOf_perm hp]
  apply det_append_ge
  · intro p hp'
    exact hw p (hm.symm.subset (List.mem_append_right _ hp'))
  · intro p hp'
    exact hw p (h.subset hp')

/-- the determinant only depends on indices and weights, not on the observed coordinate -/
theorem det_indep_t {β : Type} (base : List β) (i j w t t' : β → ℚ) :
    (normalOf (base.map fun e => ⟨i e, j e, w e, t e⟩)).det
      = (normalOf (base.map fun e => ⟨i e, j e, w e, t' e⟩)).det := by
  unfold normalOf Normal.det
  simp only [List.map_map, Function.comp_def]

/-- **Exact recovery**: if every observation is reproduced exactly by `(z, α, β)` and the design has
rank 3, the fit returns `(z, α, β)`. -/
theorem solve_exact (l : List Obs) (z al be : ℚ) (hres : ∀ o ∈ l, resid z al be o = 0)
    (hd : (normalOf l).det ≠ 0) : solveNormal (normalOf l) = some (z, al, be) := by
  have hN : NormalEqs z al be l := by
    unfold NormalEqs
    simp only [lsum_eq_sum]
    refine ⟨?_, ?_, ?_⟩ <;>
    · apply List.sum_eq_zero
      intro x hx
      obtain ⟨o, ho, rfl⟩ := List.mem_map.mp hx
      rw [hres o ho, mul_zero]
  -- Cramer uniqueness (same computation as `C06.rank3_unique`, restated here to keep the import order)
  unfold NormalEqs at hN
  simp only [lsum_eq_sum] at hN
  have hs := resid_sums z al be l
  rw [hs.1, hs.2.1, hs.2.2] at hN
  obtain ⟨h1, h2, h3⟩ := hN
  unfold solveNormal
  simp only [hd, if_false, Option.some.injEq, Prod.mk.injEq]
  generalize normalOf l = n at *
  unfold Normal.det det3 at hd
  unfold Normal.det det3
  refine ⟨?_, ?_, ?_⟩
  · rw [div_eq_iff hd]
    linear_combination (n.sii * n.sjj - n.sij * n.sij) * h1 - (n.si * n.sjj - n.sj * n.sij) * h2
      + (n.si * n.sij - n.sj * n.sii) * h3
  · rw [div_eq_iff hd]
    linear_combination (-(n.si * n.sjj - n.sij * n.sj)) * h1 + (n.s1 * n.sjj - n.sj * n.sj) * h2
      - (n.s1 * n.sij - n.sj * n.si) * h3
  · rw [div_eq_iff hd]
    linear_combination (n.si * n.sij - n.sii * n.sj) * h1 - (n.s1 * n.sij - n.si * n.sj) * h2
      + (n.s1 * n.sii - n.si * n.si) * h3

end Model
