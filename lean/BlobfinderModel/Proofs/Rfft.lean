import BlobfinderModel.Proofs.Fourier
/-
Half spectra: what `rfft` / `rfft2` keep and what `irfft(·, n)` / `irfft2(·, s)` rebuild.
-/
open ZMod Finset

namespace Fourier

variable {N : ℕ} [NeZero N]

/-- conjugating a DFT = DFT of the conjugate signal at the negated frequency -/
theorem dft_conj (g : ZMod N → ℂ) (k : ZMod N) :
    (starRingEnd ℂ) (𝓕 g k) = 𝓕 (fun j => (starRingEnd ℂ) (g j)) (-k) := by
  simp only [dft_apply, smul_eq_mul, map_sum, map_mul]
  refine Finset.sum_congr rfl fun j _ => ?_
  congr 1
  rw [← AddChar.map_neg_eq_conj, mul_neg, neg_neg]

/-- `rfft`: the coefficients `0 … N/2` of the DFT -/
noncomputable def rfft (f : ZMod N → ℂ) (m : ℕ) : ℂ := 𝓕 f (m : ZMod N)

/-- the Hermitian extension `irfft(·, n = N)` applies to a half spectrum before inverting -/
noncomputable def herm (S : ℕ → ℂ) (k : ZMod N) : ℂ :=
  if k.val ≤ N / 2 then S k.val else (starRingEnd ℂ) (S (N - k.val))

/-- `irfft(S, n = N)` -/
noncomputable def irfft (S : ℕ → ℂ) : ZMod N → ℂ := 𝓕⁻ (herm (N := N) S)

theorem cast_sub_val (k : ZMod N) : ((N - k.val : ℕ) : ZMod N) = -k := by
  have h : k.val ≤ N := le_of_lt (ZMod.val_lt k)
  rw [Nat.cast_sub h, ZMod.natCast_self, ZMod.natCast_zmod_val, zero_sub]

/-- the Hermitian extension of the half spectrum of a real signal is its full spectrum -/
theorem herm_rfft (f : ZMod N → ℝ) : herm (N := N) (rfft fun j => (f j : ℂ)) = 𝓕 (fun j => (f j : ℂ)) := by
  funext k
  unfold herm rfft
  split_ifs with h
  · rw [ZMod.natCast_zmod_val]
  · rw [cast_sub_val, dft_real_hermitian, Complex.conj_conj]

/-- **`irfft(rfft(f), n = N) = f` for every length `N`, odd or even** -/
theorem irfft_rfft (f : ZMod N → ℝ) : irfft (N := N) (rfft fun j => (f j : ℂ)) = fun j => (f j : ℂ) := by
  unfold irfft
  rw [herm_rfft, LinearEquiv.symm_apply_apply]

/-- the half spectrum has `N/2 + 1` entries; the default output length of `irfft`, `2·(entries − 1)`, is `N` exactly
for even `N` (defect D1: odd frame sizes need the explicit `s=` / `n=`) -/
theorem default_length_iff_even (n : ℕ) : 2 * ((n / 2 + 1) - 1) = n ↔ n % 2 = 0 := by omega

theorem half_spectrum_ambiguous (m : ℕ) : (2 * m) / 2 + 1 = (2 * m + 1) / 2 + 1 := by omega

omit [NeZero N] in
/-- the Hermitian extension is multiplicative: the product of two half spectra extends to the product of the spectra -/
theorem herm_mul (S T : ℕ → ℂ) (k : ZMod N) :
    herm (N := N) (fun m => S m * T m) k = herm (N := N) S k * herm (N := N) T k := by
  unfold herm
  split_ifs <;> simp [map_mul]

/-- **1-D route of the code**: `irfft(rfft(mask) · rfft(data), n = N)` is the circular convolution, for every `N` -/
theorem irfft_mul_rfft (f g : ZMod N → ℝ) :
    irfft (N := N) (fun m => rfft (fun j => (f j : ℂ)) m * rfft (fun j => (g j : ℂ)) m)
      = cconv (fun j => (f j : ℂ)) (fun j => (g j : ℂ)) := by
  unfold irfft
  have : herm (N := N) (fun m => rfft (fun j => (f j : ℂ)) m * rfft (fun j => (g j : ℂ)) m)
      = fun k => 𝓕 (fun j => (f j : ℂ)) k * 𝓕 (fun j => (g j : ℂ)) k := by
    funext k
    rw [herm_mul, herm_rfft, herm_rfft]
  rw [this, cconv_eq_invDFT]

end Fourier

namespace Fourier
variable {H W : ℕ} [NeZero H] [NeZero W]

/-- 2-D Hermitian symmetry of the spectrum of a real image -/
theorem dft2_real_hermitian (Φ : ZMod H → ZMod W → ℝ) (k1 : ZMod H) (k2 : ZMod W) :
    dft2 (fun a b => (Φ a b : ℂ)) (-k1) (-k2) = (starRingEnd ℂ) (dft2 (fun a b => (Φ a b : ℂ)) k1 k2) := by
  unfold dft2
  rw [dft_conj]
  have : (fun j1 : ZMod H => 𝓕 ((fun a b => (Φ a b : ℂ)) j1) (-k2))
      = fun j => (starRingEnd ℂ) (𝓕 ((fun a b => (Φ a b : ℂ)) j) k2) := by
    funext j1
    exact dft_real_hermitian (fun b => Φ j1 b) k2
  rw [this]

/-- `rfft2`: all row frequencies, column frequencies `0 … W/2` -/
noncomputable def rfft2 (Φ : ZMod H → ZMod W → ℂ) (k1 : ZMod H) (m : ℕ) : ℂ := dft2 Φ k1 (m : ZMod W)

/-- the Hermitian extension `irfft2(·, s = (H, W))` applies along the last axis -/
noncomputable def herm2 (S : ZMod H → ℕ → ℂ) (k1 : ZMod H) (k2 : ZMod W) : ℂ :=
  if k2.val ≤ W / 2 then S k1 k2.val else (starRingEnd ℂ) (S (-k1) (W - k2.val))

/-- `irfft2(S, s = (H, W))` -/
noncomputable def irfft2 (S : ZMod H → ℕ → ℂ) : ZMod H → ZMod W → ℂ := invDft2 (herm2 (W := W) S)

theorem herm2_rfft2 (Φ : ZMod H → ZMod W → ℝ) :
    herm2 (W := W) (rfft2 fun a b => (Φ a b : ℂ)) = dft2 (fun a b => (Φ a b : ℂ)) := by
  funext k1 k2
  unfold herm2 rfft2
  split_ifs with h
  · rw [ZMod.natCast_zmod_val]
  · rw [cast_sub_val, dft2_real_hermitian, Complex.conj_conj]

/-- **`irfft2(rfft2(f), s = f.shape) = f` for every shape** (even, odd, non-square) -/
theorem irfft2_rfft2 (Φ : ZMod H → ZMod W → ℝ) :
    irfft2 (W := W) (rfft2 fun a b => (Φ a b : ℂ)) = fun a b => (Φ a b : ℂ) := by
  unfold irfft2
  rw [herm2_rfft2, invDft2_dft2]

omit [NeZero H] [NeZero W] in
theorem herm2_mul (S T : ZMod H → ℕ → ℂ) (k1 : ZMod H) (k2 : ZMod W) :
    herm2 (W := W) (fun a m => S a m * T a m) k1 k2 = herm2 (W := W) S k1 k2 * herm2 (W := W) T k1 k2 := by
  unfold herm2
  split_ifs <;> simp [map_mul]

/-- **the route of the code, for every frame shape**: `irfft2(rfft2(mask) · rfft2(data), s = shape)` is the 2-D circular
convolution of mask and data.  What remains assumed about NumPy (A-FFT) is exactly the documented meaning of the two
calls: `rfft2` returns the column frequencies `0 … W/2` of the 2-D DFT, `irfft2(·, s)` inverts the Hermitian extension. -/
theorem irfft2_mul_rfft2 (f g : ZMod H → ZMod W → ℝ) :
    irfft2 (W := W) (fun a m => rfft2 (fun a b => (f a b : ℂ)) a m * rfft2 (fun a b => (g a b : ℂ)) a m)
      = cconv2 (fun a b => (f a b : ℂ)) (fun a b => (g a b : ℂ)) := by
  unfold irfft2
  have : herm2 (W := W) (fun a m => rfft2 (fun a b => (f a b : ℂ)) a m * rfft2 (fun a b => (g a b : ℂ)) a m)
      = fun k1 k2 => dft2 (fun a b => (f a b : ℂ)) k1 k2 * dft2 (fun a b => (g a b : ℂ)) k1 k2 := by
    funext k1 k2
    rw [herm2_mul, herm2_rfft2, herm2_rfft2]
  rw [this, cconv2_eq_invDft2]

end Fourier
