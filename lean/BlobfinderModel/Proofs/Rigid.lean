import BlobfinderModel.Proofs.Lattice
import BlobfinderModel.Model.Fastmatch
import Mathlib.Tactic.FieldSimp
import Mathlib.Tactic.Ring
import Mathlib.Tactic.Linarith
/-!
Equivariance of the fast-match model under rational rigid motions `p ↦ R p + t` (`R` orthogonal).
-/
namespace Model

/-- a linear map of the plane, rows `(r11 r12; r21 r22)` acting on `(y, x)` vectors -/
structure Lin where
  r11 : ℚ
  r12 : ℚ
  r21 : ℚ
  r22 : ℚ

def Lin.app (R : Lin) (v : V2) : V2 := (R.r11 * v.1 + R.r12 * v.2, R.r21 * v.1 + R.r22 * v.2)
def Lin.det (R : Lin) : ℚ := R.r11 * R.r22 - R.r12 * R.r21
/-- columns orthonormal: `Rᵀ R = 1` -/
def Lin.Orthogonal (R : Lin) : Prop :=
  R.r11 * R.r11 + R.r21 * R.r21 = 1 ∧ R.r12 * R.r12 + R.r22 * R.r22 = 1 ∧ R.r11 * R.r12 + R.r21 * R.r22 = 0

/-- the rigid motion `p ↦ R p + t` -/
def Lin.move (R : Lin) (t : V2) (p : V2) : V2 := vadd (R.app p) t

def Peak.move (R : Lin) (t : V2) (p : Peak) : Peak := { p with pos := R.move t p.pos }

theorem orth_det_sq (R : Lin) (h : R.Orthogonal) : R.det * R.det = 1 := by
  obtain ⟨h1, h2, h3⟩ := h
  unfold Lin.det
  have : (R.r11 * R.r22 - R.r12 * R.r21) * (R.r11 * R.r22 - R.r12 * R.r21)
      = (R.r11 * R.r11 + R.r21 * R.r21) * (R.r12 * R.r12 + R.r22 * R.r22)
        - (R.r11 * R.r12 + R.r21 * R.r22) * (R.r11 * R.r12 + R.r21 * R.r22) := by ring
  rw [this, h1, h2, h3]; ring

theorem orth_det_ne (R : Lin) (h : R.Orthogonal) : R.det ≠ 0 := by
  intro h0
  have := orth_det_sq R h
  rw [h0] at this
  norm_num at this

theorem det2_app (R : Lin) (a b : V2) : det2 (R.app a) (R.app b) = R.det * det2 a b := by
  unfold det2 Lin.app Lin.det; simp only []; ring

/-- the indices of a point are invariant under any invertible affine map applied to all inputs -/
theorem getIndices_move (R : Lin) (hd : R.det ≠ 0) (t zero a b p : V2) :
    getIndices (R.move t zero) (R.app a) (R.app b) (R.move t p) = getIndices zero a b p := by
  unfold getIndices
  simp only []
  rw [det2_app]
  by_cases h0 : det2 a b = 0
  · rw [if_pos h0, if_pos (by rw [h0]; ring)]
  · rw [if_neg h0, if_neg (mul_ne_zero hd h0)]
    congr 1
    unfold Lin.move Lin.app vadd vsub det2 Lin.det at *
    simp only []
    apply Prod.ext
    · simp only []
      rw [div_eq_div_iff (mul_ne_zero hd h0) h0]
      ring
    · simp only []
      rw [div_eq_div_iff (mul_ne_zero hd h0) h0]
      ring

theorem norm2_app (R : Lin) (h : R.Orthogonal) (a : V2) : norm2 (R.app a) = norm2 a := by
  obtain ⟨h1, h2, h3⟩ := h
  unfold norm2 Lin.app
  simp only []
  have : (R.r11 * a.1 + R.r12 * a.2) * (R.r11 * a.1 + R.r12 * a.2)
        + (R.r21 * a.1 + R.r22 * a.2) * (R.r21 * a.1 + R.r22 * a.2)
      = (R.r11 * R.r11 + R.r21 * R.r21) * (a.1 * a.1) + (R.r12 * R.r12 + R.r22 * R.r22) * (a.2 * a.2)
        + 2 * (R.r11 * R.r12 + R.r21 * R.r22) * (a.1 * a.2) := by ring
  rw [this, h1, h2, h3]; ring

theorem err2_app (R : Lin) (h : R.Orthogonal) (a b ij : V2) : err2 (R.app a) (R.app b) ij = err2 a b ij := by
  unfold err2
  rw [norm2_app R h a, norm2_app R h b]

theorem isMatched_app (R : Lin) (h : R.Orthogonal) (a b : V2) (tol : ℚ) (ij : V2) :
    isMatched (R.app a) (R.app b) tol ij = isMatched a b tol ij := by
  unfold isMatched
  rw [err2_app R h]

/-- **`_match_all` gives the same selection and the same indices for rigidly moved inputs** -/
theorem matchAll_move (R : Lin) (h : R.Orthogonal) (t : V2) (peaks : List Peak) (sel : List Bool)
    (zero a b : V2) (tol : ℚ) :
    matchAll (peaks.map (Peak.move R t)) sel (R.move t zero) (R.app a) (R.app b) tol
      = matchAll peaks sel zero a b tol := by
  have hd := orth_det_ne R h
  unfold matchAll
  rw [det2_app]
  by_cases h0 : det2 a b = 0
  · rw [if_pos h0, if_pos (by rw [h0]; ring)]
  · rw [if_neg h0, if_neg (mul_ne_zero hd h0)]
    have hij : ((peaks.map (Peak.move R t)).map fun p =>
          (getIndices (R.move t zero) (R.app a) (R.app b) p.pos).getD (0, 0))
        = peaks.map fun p => (getIndices zero a b p.pos).getD (0, 0) := by
      rw [List.map_map]
      apply List.map_congr_left
      intro p _
      simp only [Function.comp, Peak.move]
      rw [getIndices_move R hd]
    simp only [hij, isMatched_app R h]

/-! ### the weighted fit -/

theorem lsum_map_affine {β : Type} (base : List β) (g f1 f2 : β → ℚ) (p q c : ℚ) :
    lsum (base.map fun e => g e * (p * f1 e + q * f2 e + c))
      = p * lsum (base.map fun e => g e * f1 e) + q * lsum (base.map fun e => g e * f2 e)
        + c * lsum (base.map fun e => g e) := by
  simp only [lsum_eq_sum]
  induction base with
  | nil => simp
  | cons e t ih => simp only [List.map_cons, List.sum_cons, ih]; ring

/-- observations over a common base list: index, weight and target as functions of the element -/
def obsOf {β : Type} (base : List β) (i j w t : β → ℚ) : List Obs := base.map fun e => ⟨i e, j e, w e, t e⟩

theorem normalOf_obsOf {β : Type} (base : List β) (i j w t : β → ℚ) :
    normalOf (obsOf base i j w t) =
      { s1 := lsum (base.map fun e => w e), si := lsum (base.map fun e => w e * i e),
        sj := lsum (base.map fun e => w e * j e), sii := lsum (base.map fun e => w e * i e * i e),
        sij := lsum (base.map fun e => w e * i e * j e), sjj := lsum (base.map fun e => w e * j e * j e),
        st := lsum (base.map fun e => w e * t e), sit := lsum (base.map fun e => w e * i e * t e),
        sjt := lsum (base.map fun e => w e * j e * t e) } := by
  unfold normalOf obsOf
  simp only [List.map_map]
  rfl

/-- **the Cramer solution of the normal equations is affine in the target column** -/
theorem solveNormal_affine {β : Type} (base : List β) (i j w ty tx : β → ℚ) (p q c : ℚ) :
    solveNormal (normalOf (obsOf base i j w (fun e => p * ty e + q * tx e + c)))
      = match solveNormal (normalOf (obsOf base i j w ty)), solveNormal (normalOf (obsOf base i j w tx)) with
        | some (zy, ay, by_), some (zx, ax, bx) => some (p * zy + q * zx + c, p * ay + q * ax, p * by_ + q * bx)
        | _, _ => none := by
  rw [normalOf_obsOf, normalOf_obsOf, normalOf_obsOf]
  have e1 := lsum_map_affine base (fun e => w e) ty tx p q c
  have e2 := lsum_map_affine base (fun e => w e * i e) ty tx p q c
  have e3 := lsum_map_affine base (fun e => w e * j e) ty tx p q c
  unfold solveNormal Normal.det
  simp only [e1, e2, e3]
  set s1 := lsum (base.map fun e => w e)
  set si := lsum (base.map fun e => w e * i e)
  set sj := lsum (base.map fun e => w e * j e)
  set sii := lsum (base.map fun e => w e * i e * i e)
  set sij := lsum (base.map fun e => w e * i e * j e)
  set sjj := lsum (base.map fun e => w e * j e * j e)
  set sty := lsum (base.map fun e => w e * ty e)
  set stx := lsum (base.map fun e => w e * tx e)
  set sity := lsum (base.map fun e => w e * i e * ty e)
  set sitx := lsum (base.map fun e => w e * i e * tx e)
  set sjty := lsum (base.map fun e => w e * j e * ty e)
  set sjtx := lsum (base.map fun e => w e * j e * tx e)
  by_cases hd : det3 s1 si sj si sii sij sj sij sjj = 0
  · simp only [hd, if_true]
  · simp only [hd, if_false]
    congr 1
    have hd' : det3 s1 si sj si sii sij sj sij sjj ≠ 0 := hd
    have h1 : det3 (p * sty + q * stx + c * s1) si sj (p * sity + q * sitx + c * si) sii sij (p * sjty + q * sjtx + c * sj) sij sjj
        = p * det3 sty si sj sity sii sij sjty sij sjj + q * det3 stx si sj sitx sii sij sjtx sij sjj
          + c * det3 s1 si sj si sii sij sj sij sjj := by unfold det3; ring
    have h2 : det3 s1 (p * sty + q * stx + c * s1) sj si (p * sity + q * sitx + c * si) sij sj (p * sjty + q * sjtx + c * sj) sjj
        = p * det3 s1 sty sj si sity sij sj sjty sjj + q * det3 s1 stx sj si sitx sij sj sjtx sjj := by unfold det3; ring
    have h3 : det3 s1 si (p * sty + q * stx + c * s1) si sii (p * sity + q * sitx + c * si) sj sij (p * sjty + q * sjtx + c * sj)
        = p * det3 s1 si sty si sii sity sj sij sjty + q * det3 s1 si stx si sii sitx sj sij sjtx := by unfold det3; ring
    rw [h1, h2, h3]
    set D := det3 s1 si sj si sii sij sj sij sjj
    refine Prod.ext ?_ (Prod.ext ?_ ?_)
    · simp only []; field_simp
    · simp only []; field_simp
    · simp only []; field_simp

theorem chosen_map (f : Peak → Peak) (m : List Bool) (peaks : List Peak) :
    ((m.zip (peaks.map f)).filter (·.1)).map (·.2) = (((m.zip peaks).filter (·.1)).map (·.2)).map f := by
  induction m generalizing peaks with
  | nil => simp
  | cons b t ih =>
    cases peaks with
    | nil => simp
    | cons p ps =>
      simp only [List.map_cons, List.zip_cons_cons, List.filter_cons]
      cases b
      · simp only [Bool.false_eq_true, if_false]; exact ih ps
      · simp only [if_true, List.map_cons]; rw [ih ps]

theorem obsFor_eq_obsOf (peaks : List Peak) (m : List Bool) (idx : List (Int × Int)) (coord : V2 → ℚ) :
    obsFor peaks m idx coord
      = obsOf ((((m.zip peaks).filter (·.1)).map (·.2)).zip idx) (fun e => (e.2.1 : ℚ)) (fun e => (e.2.2 : ℚ))
          (fun e => e.1.elev) (fun e => coord e.1.pos) := by
  unfold obsFor obsOf
  apply List.map_congr_left
  rintro ⟨p, ij⟩ _
  rfl

theorem obsFor_move (R : Lin) (t : V2) (peaks : List Peak) (m : List Bool) (idx : List (Int × Int)) (coord : V2 → ℚ) :
    obsFor (peaks.map (Peak.move R t)) m idx coord
      = obsOf ((((m.zip peaks).filter (·.1)).map (·.2)).zip idx) (fun e => (e.2.1 : ℚ)) (fun e => (e.2.2 : ℚ))
          (fun e => e.1.elev) (fun e => coord (R.move t e.1.pos)) := by
  rw [obsFor_eq_obsOf, chosen_map, List.zip_map_left]
  unfold obsOf
  rw [List.map_map]
  apply List.map_congr_left
  rintro ⟨p, ij⟩ _
  rfl

/-- **the weighted fit of rigidly moved peaks is the moved fit** -/
theorem weightedOptimize_move (R : Lin) (t : V2) (peaks : List Peak) (m : List Bool) (idx : List (Int × Int)) :
    weightedOptimize (peaks.map (Peak.move R t)) m idx
      = (weightedOptimize peaks m idx).map fun zab => (R.move t zab.1, R.app zab.2.1, R.app zab.2.2) := by
  unfold weightedOptimize
  rw [obsFor_move, obsFor_move, obsFor_eq_obsOf, obsFor_eq_obsOf]
  set base := (((m.zip peaks).filter (·.1)).map (·.2)).zip idx
  have hy : (fun e : Peak × (Int × Int) => (R.move t e.1.pos).1)
      = fun e => R.r11 * e.1.pos.1 + R.r12 * e.1.pos.2 + t.1 := by
    funext e; unfold Lin.move Lin.app vadd; rfl
  have hx : (fun e : Peak × (Int × Int) => (R.move t e.1.pos).2)
      = fun e => R.r21 * e.1.pos.1 + R.r22 * e.1.pos.2 + t.2 := by
    funext e; unfold Lin.move Lin.app vadd; rfl
  rw [hy, hx, solveNormal_affine, solveNormal_affine]
  cases solveNormal (normalOf (obsOf base (fun e => (e.2.1 : ℚ)) (fun e => (e.2.2 : ℚ)) (fun e => e.1.elev) fun e => e.1.pos.1)) with
  | none => rfl
  | some sy =>
    cases solveNormal (normalOf (obsOf base (fun e => (e.2.1 : ℚ)) (fun e => (e.2.2 : ℚ)) (fun e => e.1.elev) fun e => e.1.pos.2)) with
    | none => rfl
    | some sx =>
      obtain ⟨zy, ay, by_⟩ := sy
      obtain ⟨zx, ax, bx⟩ := sx
      simp only [Option.map_some]
      unfold Lin.move Lin.app vadd
      rfl

/-- the result of a match, rigidly moved -/
def MatchResult.move (R : Lin) (t : V2) : MatchResult → MatchResult
  | .invalid => .invalid
  | .degenerate => .degenerate
  | .valid z a b s i => .valid (R.move t z) (R.app a) (R.app b) s i

/-- **Rotating (by a rational orthogonal map, reflections included) and translating all inputs of the
fast match rotates and translates its result**: same selection, same indices, the lattice mapped by
the same motion; invalid and degenerate outcomes are preserved. -/
theorem fastmatch_move (R : Lin) (h : R.Orthogonal) (t : V2) (peaks : List Peak) (zero a b : V2)
    (tol minWeight : ℚ) (minMatch : ℤ) :
    fastmatch (peaks.map (Peak.move R t)) (R.move t zero) (R.app a) (R.app b) tol minWeight minMatch
      = (fastmatch peaks zero a b tol minWeight minMatch).move R t := by
  unfold fastmatch
  have hf : ((peaks.map (Peak.move R t)).map fun p => Gen.fm_weight_ok p.elev minWeight)
      = peaks.map fun p => Gen.fm_weight_ok p.elev minWeight := by
    rw [List.map_map]; rfl
  simp only [hf, matchAll_move R h]
  cases matchAll peaks (peaks.map fun p => Gen.fm_weight_ok p.elev minWeight) zero a b tol with
  | none => rfl
  | some r1 =>
    obtain ⟨m1, idx1⟩ := r1
    simp only []
    by_cases hen : (!Gen.fm_enough idx1.length minMatch) = true
    · simp only [hen, if_true]; rfl
    · simp only [hen, if_false, Bool.false_eq_true]
      rw [weightedOptimize_move]
      cases weightedOptimize peaks m1 idx1 with
      | none =>
        simp only [Option.map_none]
        by_cases h0 : idx1.length = 0
        · simp only [h0, if_true]; rfl
        · simp only [h0, if_false]; rfl
      | some zab =>
        obtain ⟨z1, a1, b1⟩ := zab
        simp only [Option.map_some, matchAll_move R h]
        cases matchAll peaks (peaks.map fun p => Gen.fm_weight_ok p.elev minWeight) z1 a1 b1 tol with
        | none => rfl
        | some r2 =>
          obtain ⟨m2, idx2⟩ := r2
          simp only []
          rw [weightedOptimize_move]
          cases weightedOptimize peaks m2 idx2 with
          | none =>
            simp only [Option.map_none]
            by_cases h0 : idx2.length = 0
            · simp only [h0, if_true]; rfl
            · simp only [h0, if_false]; rfl
          | some zab2 =>
            obtain ⟨z2, a2, b2⟩ := zab2
            rfl

end Model
