import BlobfinderModel.Proofs.Pipeline
import BlobfinderModel.Proofs.Kernels
import BlobfinderModel.Properties.C13
import Mathlib.Algebra.BigOperators.Group.Finset.Basic
/-!
Transposition (axis swap) of the evaluation kernels and of the correlation map.
The row-major `argmax` breaks ties in an order that is not symmetric under the swap, so the
statements about the integer centre need a unique maximiser.
-/
open Finset

namespace Model

/-- the minimum of a non-empty list is one of its elements -/
theorem foldl_rmin_mem (l : List ℚ) (a : ℚ) :
    l.foldl (fun a b => rmin a b) a = a ∨ l.foldl (fun a b => rmin a b) a ∈ l := by
  induction l generalizing a with
  | nil => left; rfl
  | cons x t ih =>
    simp only [List.foldl_cons]
    rcases ih (rmin a x) with h | h
    · rw [h]
      unfold rmin
      split_ifs
      · left; rfl
      · right; exact List.mem_cons_self
    · right; exact List.mem_cons_of_mem _ h

theorem minList_mem (l : List ℚ) (hne : l ≠ []) : minList l ∈ l := by
  cases l with
  | nil => exact absurd rfl hne
  | cons x t =>
    simp only [minList]
    rcases foldl_rmin_mem t x with h | h
    · rw [h]; exact List.mem_cons_self
    · exact List.mem_cons_of_mem _ h

/-- two non-empty lists with the same elements have the same minimum -/
theorem minList_eq_of_mem_iff (l l' : List ℚ) (hne : l ≠ []) (h : ∀ v, v ∈ l ↔ v ∈ l') : minList l = minList l' := by
  have hne' : l' ≠ [] := by
    intro h0
    cases l with
    | nil => exact hne rfl
    | cons x t => have := (h x).mp List.mem_cons_self; rw [h0] at this; cases this
  apply le_antisymm
  · exact minList_le l _ ((h _).mpr (minList_mem l' hne'))
  · exact minList_le l' _ ((h _).mp (minList_mem l hne))

theorem mem_flat (f : ℤ → ℤ → ℚ) (n m : ℤ) (v : ℚ) :
    v ∈ flat f n m ↔ ∃ y x, (0 ≤ y ∧ y < n) ∧ (0 ≤ x ∧ x < m) ∧ v = f y x := by
  rw [flat_eq_map]
  simp only [List.mem_map, mem_pairsL]
  constructor
  · rintro ⟨p, ⟨hy, hx⟩, rfl⟩; exact ⟨p.1, p.2, hy, hx, rfl⟩
  · rintro ⟨y, x, hy, hx, rfl⟩; exact ⟨(y, x), ⟨hy, hx⟩, rfl⟩

theorem minList_flat_transpose (f : ℤ → ℤ → ℚ) (n m : ℕ) (hn : 0 < n) (hm : 0 < m) :
    minList (flat (fun y x => f x y) m n) = minList (flat f n m) := by
  apply minList_eq_of_mem_iff _ _ (flat_ne_nil _ m n hm hn)
  intro v
  rw [mem_flat, mem_flat]
  constructor
  · rintro ⟨y, x, hy, hx, rfl⟩; exact ⟨x, y, hx, hy, rfl⟩
  · rintro ⟨y, x, hy, hx, rfl⟩; exact ⟨x, y, hx, hy, rfl⟩

theorem lsum_flat (f : ℤ → ℤ → ℚ) (n m : ℕ) :
    lsum (flat f n m) = ∑ y ∈ Finset.range n, ∑ x ∈ Finset.range m, f y x := by
  rw [lsum_eq_sum]
  unfold flat irange
  simp only [Int.toNat_natCast, List.map_map]
  induction n with
  | zero => simp
  | succ k ih =>
    rw [List.range_succ, List.map_append, List.flatMap_append, List.sum_append, ih, Finset.sum_range_succ]
    simp only [List.map_cons, List.map_nil, List.flatMap_cons, List.flatMap_nil, List.append_nil]
    congr 1

theorem lsum_flat_transpose (f : ℤ → ℤ → ℚ) (n m : ℕ) :
    lsum (flat (fun y x => f x y) m n) = lsum (flat f n m) := by
  rw [lsum_flat, lsum_flat, Finset.sum_comm]

theorem refine_r_swap (r y x h w : ℤ) : Model.refine_r r x y w h = Model.refine_r r y x h w := by
  unfold Model.refine_r; omega

/-- **the refinement of the transposed map around the swapped centre is the swapped refinement** -/
theorem refineCenter_transpose (corr : ℤ → ℤ → ℚ) (h w cy cx : ℤ) (hy : 0 ≤ cy ∧ cy < h) (hx : 0 ≤ cx ∧ cx < w) :
    refineCenter (fun y x => corr x y) w h cx cy Model.refine_radius
      = ((refineCenter corr h w cy cx Model.refine_radius).2, (refineCenter corr h w cy cx Model.refine_radius).1) := by
  unfold refineCenter
  simp only []
  rw [refine_r_swap]
  have hb := C03.refine_cut_in_bounds cy cx h w hy hx
  simp only [] at hb
  set r := Model.refine_r Model.refine_radius cy cx h w with hr
  by_cases hg : Model.refine_guard r = true
  · rw [if_pos hg, if_pos hg]
  · rw [if_neg hg, if_neg hg]
    have hgf : Model.refine_guard r = false := by simpa using hg
    obtain ⟨hr0, _, hcut⟩ := hb
    obtain ⟨_, _, _, _, hny, hnx⟩ := hcut hgf
    have hN : (2 * r + 1) = (((2 * r + 1).toNat : ℕ) : ℤ) := (Int.toNat_of_nonneg (by omega)).symm
    have hNpos : 0 < (2 * r + 1).toNat := by omega
    rw [hny, hnx, hN]
    set N := (2 * r + 1).toNat
    set cut : ℤ → ℤ → ℚ := fun y x => corr (Model.cut_lo cy r + y) (Model.cut_lo cx r + x) with hcutdef
    have hcut' : (fun y x => corr (Model.cut_lo cy r + x) (Model.cut_lo cx r + y)) = fun y x => cut x y := rfl
    rw [hcut']
    have hmin : minList (flat (fun y x => cut x y) N N) = minList (flat cut N N) :=
      minList_flat_transpose cut N N hNpos hNpos
    rw [hmin]
    set mn := minList (flat cut N N)
    have e0 : lsum (flat (fun y x => cut x y - mn) N N) = lsum (flat (fun y x => cut y x - mn) N N) :=
      lsum_flat_transpose (fun y x => cut y x - mn) N N
    have e1 : lsum (flat (fun (y x : ℤ) => (cut x y - mn) * (y : ℚ)) N N)
        = lsum (flat (fun (y x : ℤ) => (cut y x - mn) * (x : ℚ)) N N) :=
      lsum_flat_transpose (fun (y x : ℤ) => (cut y x - mn) * (x : ℚ)) N N
    have e2 : lsum (flat (fun (y x : ℤ) => (cut x y - mn) * (x : ℚ)) N N)
        = lsum (flat (fun (y x : ℤ) => (cut y x - mn) * (y : ℚ)) N N) :=
      lsum_flat_transpose (fun (y x : ℤ) => (cut y x - mn) * (y : ℚ)) N N
    rw [e0, e1, e2]

theorem mem_elevCands (corr : ℤ → ℤ → ℚ) (h w : ℤ) (py px height v : ℚ) :
    v ∈ elevCands corr h w py px height ↔
      ∃ y x : ℤ, (0 ≤ y ∧ y < h) ∧ (0 ≤ x ∧ x < w) ∧
        Model.elev_rmin * Model.elev_rmin ≤ ((y : ℚ) - py) ^ 2 + ((x : ℚ) - px) ^ 2 ∧
        v = (height - corr y x) ^ 2 / (((y : ℚ) - py) ^ 2 + ((x : ℚ) - px) ^ 2) := by
  unfold elevCands
  simp only [List.mem_flatMap, List.mem_filterMap, mem_irange]
  constructor
  · rintro ⟨y, hy, x, hx, hv⟩
    by_cases hc : Model.elev_rmin * Model.elev_rmin ≤ ((y : ℚ) - py) ^ 2 + ((x : ℚ) - px) ^ 2
    · rw [if_pos hc] at hv
      exact ⟨y, x, hy, hx, hc, (Option.some.inj hv).symm⟩
    · rw [if_neg hc] at hv; cases hv
  · rintro ⟨y, x, hy, hx, hc, rfl⟩
    exact ⟨y, hy, x, hx, by rw [if_pos hc]⟩

/-- **the elevation of the transposed map at the swapped position is the same** -/
theorem elevation2_transpose (corr : ℤ → ℤ → ℚ) (h w : ℤ) (py px height : ℚ) :
    elevation2 (fun y x => corr x y) w h px py height = elevation2 corr h w py px height := by
  rw [elevation2_eq, elevation2_eq]
  have hmem : ∀ v, v ∈ elevCands (fun y x => corr x y) w h px py height ↔ v ∈ elevCands corr h w py px height := by
    intro v
    rw [mem_elevCands, mem_elevCands]
    constructor
    · rintro ⟨y, x, hy, hx, hc, rfl⟩
      refine ⟨x, y, hx, hy, by rw [add_comm]; exact hc, ?_⟩
      rw [add_comm (((x : ℚ) - py) ^ 2)]
    · rintro ⟨y, x, hy, hx, hc, rfl⟩
      refine ⟨x, y, hx, hy, by rw [add_comm]; exact hc, ?_⟩
      rw [add_comm (((x : ℚ) - px) ^ 2)]
  by_cases hnil : elevCands corr h w py px height = []
  · have : elevCands (fun y x => corr x y) w h px py height = [] := by
      apply List.eq_nil_iff_forall_not_mem.mpr
      intro v hv
      have := (hmem v).mp hv
      rw [hnil] at this; cases this
    rw [if_pos hnil, if_pos this]
  · have hne' : elevCands (fun y x => corr x y) w h px py height ≠ [] := by
      intro h0
      apply hnil
      apply List.eq_nil_iff_forall_not_mem.mpr
      intro v hv
      have := (hmem v).mpr hv
      rw [h0] at this; cases this
    rw [if_neg hnil, if_neg hne', minList_eq_of_mem_iff _ _ hne' hmem]

/-- `(y, x)` maximises the map over `[0, n) × [0, m)` -/
def IsMaxAt (corr : ℤ → ℤ → ℚ) (n m y x : ℤ) : Prop :=
  (0 ≤ y ∧ y < n) ∧ (0 ≤ x ∧ x < m) ∧ ∀ a b : ℤ, 0 ≤ a → a < n → 0 ≤ b → b < m → corr a b ≤ corr y x

theorem evaluate_isMaxAt (corr : ℤ → ℤ → ℚ) (n m : ℕ) (hn : 0 < n) (hm : 0 < m) :
    IsMaxAt corr n m (evaluate corr n m).cy (evaluate corr n m).cx := by
  obtain ⟨hcy, hcx, hh, hmax, _⟩ := C03.evaluate_center_is_max corr n m hn hm
  refine ⟨hcy, hcx, ?_⟩
  intro a b ha0 ha1 hb0 hb1
  have := hmax a.toNat b.toNat (by omega) (by omega)
  rw [Int.toNat_of_nonneg ha0, Int.toNat_of_nonneg hb0, hh] at this
  exact this

/-- **Transposition of the evaluation, for maps with a unique maximiser**: evaluating the transposed
map gives the swapped centre, the swapped refined position, the same height and the same elevation. -/
theorem evaluate_transpose (corr : ℤ → ℤ → ℚ) (n m : ℕ) (hn : 0 < n) (hm : 0 < m)
    (huniq : ∀ y x y' x' : ℤ, IsMaxAt corr n m y x → IsMaxAt corr n m y' x' → y = y' ∧ x = x') :
    (evaluate (fun y x => corr x y) m n).cy = (evaluate corr n m).cx ∧
    (evaluate (fun y x => corr x y) m n).cx = (evaluate corr n m).cy ∧
    (evaluate (fun y x => corr x y) m n).height = (evaluate corr n m).height ∧
    (evaluate (fun y x => corr x y) m n).ry = (evaluate corr n m).rx ∧
    (evaluate (fun y x => corr x y) m n).rx = (evaluate corr n m).ry ∧
    (evaluate (fun y x => corr x y) m n).elev2 = (evaluate corr n m).elev2 := by
  have h1 := evaluate_isMaxAt corr n m hn hm
  have h2 := evaluate_isMaxAt (fun y x => corr x y) m n hm hn
  have h2' : IsMaxAt corr n m (evaluate (fun y x => corr x y) m n).cx (evaluate (fun y x => corr x y) m n).cy := by
    obtain ⟨hy, hx, hmx⟩ := h2
    exact ⟨hx, hy, fun a b ha0 ha1 hb0 hb1 => hmx b a hb0 hb1 ha0 ha1⟩
  obtain ⟨ex, ey⟩ := huniq _ _ _ _ h2' h1
  have hht : (evaluate (fun y x => corr x y) m n).height = (evaluate corr n m).height := by
    show corr (evaluate (fun y x => corr x y) m n).cx (evaluate (fun y x => corr x y) m n).cy
      = corr (evaluate corr n m).cy (evaluate corr n m).cx
    rw [ex, ey]
  have hrf : refineCenter (fun y x => corr x y) m n (evaluate (fun y x => corr x y) m n).cy
        (evaluate (fun y x => corr x y) m n).cx Model.refine_radius
      = ((refineCenter corr n m (evaluate corr n m).cy (evaluate corr n m).cx Model.refine_radius).2,
         (refineCenter corr n m (evaluate corr n m).cy (evaluate corr n m).cx Model.refine_radius).1) := by
    rw [ey, ex]
    exact refineCenter_transpose corr n m _ _ h1.1 h1.2.1
  have a1 : (evaluate (fun y x => corr x y) m n).ry = (refineCenter (fun y x => corr x y) m n
      (evaluate (fun y x => corr x y) m n).cy (evaluate (fun y x => corr x y) m n).cx Model.refine_radius).1 := rfl
  have a2 : (evaluate (fun y x => corr x y) m n).rx = (refineCenter (fun y x => corr x y) m n
      (evaluate (fun y x => corr x y) m n).cy (evaluate (fun y x => corr x y) m n).cx Model.refine_radius).2 := rfl
  have b1 : (evaluate corr n m).ry
      = (refineCenter corr n m (evaluate corr n m).cy (evaluate corr n m).cx Model.refine_radius).1 := rfl
  have b2 : (evaluate corr n m).rx
      = (refineCenter corr n m (evaluate corr n m).cy (evaluate corr n m).cx Model.refine_radius).2 := rfl
  have hry : (evaluate (fun y x => corr x y) m n).ry = (evaluate corr n m).rx := by rw [a1, b2, hrf]
  have hrx : (evaluate (fun y x => corr x y) m n).rx = (evaluate corr n m).ry := by rw [a2, b1, hrf]
  refine ⟨ey, ex, hht, hry, hrx, ?_⟩
  have c1 : (evaluate (fun y x => corr x y) m n).elev2 = elevation2 (fun y x => corr x y) m n
      (evaluate (fun y x => corr x y) m n).ry (evaluate (fun y x => corr x y) m n).rx
      (evaluate (fun y x => corr x y) m n).height := rfl
  have c2 : (evaluate corr n m).elev2 = elevation2 corr n m (evaluate corr n m).ry (evaluate corr n m).rx
      (evaluate corr n m).height := rfl
  rw [c1, c2, hry, hrx, hht]
  exact elevation2_transpose corr n m _ _ _

/-! ### the correlation map and the pipeline -/

theorem lsum_nested (F : ℤ → ℤ → ℚ) (n m : ℤ) :
    lsum ((irange n).map fun y => lsum ((irange m).map fun x => F y x)) = lsum (flat F n m) := by
  simp only [lsum_eq_sum]
  unfold flat
  induction (irange n) with
  | nil => simp
  | cons a t ih => simp only [List.map_cons, List.sum_cons, List.flatMap_cons, List.sum_append, ih]

/-- **the correlation map of the transposed mask and data is the transposed correlation map** -/
theorem corrMap_transpose (kind : String) (mask data : ℤ → ℤ → ℚ) (H W : ℕ) (y x : ℤ) :
    corrMap kind (fun a b => mask b a) (fun a b => data b a) W H x y = corrMap kind mask data H W y x := by
  unfold corrMap
  simp only []
  rw [lsum_nested, lsum_nested]
  exact lsum_flat_transpose (fun my mx => mask my mx * data ((shiftSrc kind H y - my) % H) ((shiftSrc kind W x - mx) % W)) H W

theorem logCrop_transpose (L : ℚ → ℚ) (crop : ℤ → ℤ → ℚ) (H W : ℕ) (hH : 0 < H) (hW : 0 < W) (y x : ℤ) :
    logCrop L (fun a b => crop b a) W H x y = logCrop L crop H W y x := by
  unfold logCrop
  rw [minList_flat_transpose crop H W hH hW]

theorem cropPixel_transpose (frame : ℤ → ℤ → ℚ) (fy fx c p0 p1 y x : ℤ) :
    cropPixel (fun a b => frame b a) fx fy c p1 p0 x y = cropPixel frame fy fx c p0 p1 y x := by
  rw [C13.cropPixel_eq_window, C13.cropPixel_eq_window]
  unfold window
  by_cases h : 0 ≤ p0 - c + y ∧ p0 - c + y < fy ∧ 0 ≤ p1 - c + x ∧ p1 - c + x < fx
  · rw [if_pos h, if_pos ⟨h.2.2.1, h.2.2.2, h.1, h.2.1⟩]
  · rw [if_neg h, if_neg (fun hc => h ⟨hc.2.2.1, hc.2.2.2, hc.1, hc.2.1⟩)]

/-- the window correlation map of the transposed problem is the transposed window correlation map -/
theorem fastCorr_transpose (L : ℚ → ℚ) (mask frame : ℤ → ℤ → ℚ) (fy fx : ℤ) (c : ℕ) (hc : 0 < c) (p : ℤ × ℤ) :
    fastCorr L (fun a b => mask b a) (fun a b => frame b a) fx fy c (p.2, p.1)
      = fun y x => fastCorr L mask frame fy fx c p x y := by
  funext y x
  unfold fastCorr
  have hcast : (2 * (c : ℤ)) = ((2 * c : ℕ) : ℤ) := by push_cast; ring
  have hpos : 0 < 2 * c := by omega
  have hcrop : (fun a b => cropPixel (fun a b => frame b a) fx fy c p.2 p.1 a b)
      = fun a b => (fun y x => cropPixel frame fy fx c p.1 p.2 y x) b a := by
    funext a b; exact cropPixel_transpose frame fy fx c p.1 p.2 b a
  simp only []
  rw [hcrop, hcast]
  have hlog : logCrop L (fun a b => (fun y x => cropPixel frame fy fx c p.1 p.2 y x) b a) (2 * c : ℕ) (2 * c : ℕ)
      = fun a b => logCrop L (fun y x => cropPixel frame fy fx c p.1 p.2 y x) (2 * c : ℕ) (2 * c : ℕ) b a := by
    funext a b; exact logCrop_transpose L _ (2 * c) (2 * c) hpos hpos b a
  rw [hlog]
  exact corrMap_transpose _ mask _ (2 * c) (2 * c) x y

/-- **Transposition equivariance of the crop-based method, end to end**: transposing frame and mask
and swapping the peak coordinates swaps the coordinates of centre and refined position and leaves
height and elevation unchanged — provided the window's correlation map has a unique maximiser
(with ties the row-major `argmax` picks positions that are not mirror images of each other). -/
theorem fastPeak_transpose (L : ℚ → ℚ) (mask frame : ℤ → ℤ → ℚ) (fy fx : ℤ) (c : ℕ) (hc : 0 < c) (p : ℤ × ℤ)
    (huniq : ∀ y x y' x' : ℤ, IsMaxAt (fastCorr L mask frame fy fx c p) (2 * c : ℕ) (2 * c : ℕ) y x →
      IsMaxAt (fastCorr L mask frame fy fx c p) (2 * c : ℕ) (2 * c : ℕ) y' x' → y = y' ∧ x = x') :
    let e := fastPeak L mask frame fy fx c p
    let e' := fastPeak L (fun a b => mask b a) (fun a b => frame b a) fx fy c (p.2, p.1)
    e'.cy = e.cx ∧ e'.cx = e.cy ∧ e'.height = e.height ∧ e'.ry = e.rx ∧ e'.rx = e.ry ∧ e'.elev2 = e.elev2 := by
  intro e e'
  have hcast : (2 * (c : ℤ)) = ((2 * c : ℕ) : ℤ) := by push_cast; ring
  have hpos : 0 < 2 * c := by omega
  have he : e = reanchor (evaluate (fastCorr L mask frame fy fx c p) (2 * c : ℕ) (2 * c : ℕ)) p.1 p.2 c := by
    show reanchor (evaluate (fastCorr L mask frame fy fx c p) (2 * (c : ℤ)) (2 * (c : ℤ))) p.1 p.2 c = _
    rw [hcast]
  have he' : e' = reanchor (evaluate (fun y x => fastCorr L mask frame fy fx c p x y) (2 * c : ℕ) (2 * c : ℕ)) p.2 p.1 c := by
    show reanchor (evaluate (fastCorr L (fun a b => mask b a) (fun a b => frame b a) fx fy c (p.2, p.1))
      (2 * (c : ℤ)) (2 * (c : ℤ))) p.2 p.1 c = _
    rw [fastCorr_transpose L mask frame fy fx c hc p, hcast]
  obtain ⟨t1, t2, t3, t4, t5, t6⟩ := evaluate_transpose (fastCorr L mask frame fy fx c p) (2 * c) (2 * c) hpos hpos huniq
  rw [he, he']
  unfold reanchor
  simp only []
  rw [t1, t2, t3, t4, t5, t6]
  exact ⟨rfl, rfl, rfl, rfl, rfl, rfl⟩

end Model
