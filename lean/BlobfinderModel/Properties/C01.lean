import BlobfinderModel.Properties.C04
import BlobfinderModel.Properties.C16
import BlobfinderModel.Proofs.Transpose
import Mathlib.Algebra.BigOperators.Group.Finset.Basic
import Mathlib.Algebra.BigOperators.Intervals
import Mathlib.Algebra.Order.BigOperators.Group.Finset
import Mathlib.Algebra.Group.Fin.Basic
import Mathlib.Tactic.Abel
import Mathlib.Data.ZMod.Basic
import Mathlib.Algebra.BigOperators.Ring.Finset
/-!
# C01 — pixel-centred matched disk is located exactly  (partial)

Proved (exact arithmetic):
* index chain: the correlation map reads the mask centred on the evaluated pixel for every size
  parity (`C03.corr_index_map`), masks / user templates / RGBS geometry are centred on `shape // 2`
  (C16), re-anchoring is exact (`C03.shift_unshift`), the upsampling uses the centre `ceil(n/2)` that
  matches the `ifftshift` (`upsample_center_matches_shift`);
* on any finite abelian group of pixel positions (in particular `ZMod h × ZMod w`, the circular
  frame): a mask that is point-symmetric about its centre `c` correlated with data point-symmetric
  about `q` gives a map symmetric about `q` (`corr_symmetric`), and the correlation of a function with
  its own translate is maximal at the true shift (`autocorr_max` — the `Circular` pattern on a disk
  of its own shape);
* the centre of mass of a point-symmetric `(2r+1)²` neighbourhood is its centre, so the refined
  position equals the integer centre exactly (`com_symmetric`, `refined_exact`).
* **every sign-matched template on a flat (hard-edged) disk**: a template that is ≥ 0 on the disk's pixels and ≤ 0 off
  them (radial gradient, background subtraction, user templates of that kind) has its correlation maximum at the disk
  centre (`sign_matched_max`), strictly and uniquely so when it is positive on the disk and the disk is not mapped onto
  itself by a non-zero shift (`sign_matched_strict`, `sign_matched_unique`); a strict maximum plus point symmetry gives
  the exact integer centre and the exact refined position (`strictMax_isMaxAt`, `evaluate_strictmax_exact`);
* the model's correlation map *is* that group correlation on the torus `ZMod H × ZMod W` with the mask centred on
  `(H/2, W/2)` (`corrMap_eq_gcorr`), so the above composes **end to end**: `flat_disk_exact` — for every map size and
  parity, every symmetric disk shape and every symmetric sign-matched template, the evaluation kernels applied to the
  model's correlation map return integer centre `q` and refined position exactly `q` (non-vacuity: a concrete 7×7
  instance is checked by `decide`), and through both composed pipelines: `fastPeak_flat_disk_exact` (crop-based: centre and
  refined position are exactly `start − c + w`) and `fullPeak_flat_disk_exact` (full-frame: exactly `q` for every start
  position whose window lies in the frame and contains `q` 2 px inside).

**Not proved**: the same for the *antialiased* disks and masks the library renders (edge pixels with fractional weights
on both sides — there the uniqueness of the maximum is decided by the oracle only), the 0.01 px float bound and the
`1.5/upsample` bound.
-/
namespace C01
open Model

/-- circular correlation on a finite abelian group of positions, mask centred at `c` -/
def gcorr {G : Type} [AddCommGroup G] [Fintype G] (c : G) (mask data : G → ℚ) (j : G) : ℚ :=
  ∑ m : G, mask m * data (j + c - m)

/-- **symmetric mask, symmetric data ⇒ symmetric correlation map** (about the data's centre `q`) -/
theorem corr_symmetric {G : Type} [AddCommGroup G] [Fintype G] (c q : G) (mask data : G → ℚ)
    (hm : ∀ u, mask (c + u) = mask (c - u)) (hd : ∀ u, data (q + u) = data (q - u)) (d : G) :
    gcorr c mask data (q + d) = gcorr c mask data (q - d) := by
  unfold gcorr
  rw [← Equiv.sum_comp (Equiv.subLeft (c + c))]
  apply Finset.sum_congr rfl
  intro m _
  simp only [Equiv.subLeft_apply]
  have e1 : c + c - m = c + (c - m) := by abel
  have e2 : q + d + c - (c + (c - m)) = q + (d - c + m) := by abel
  have e3 : q - d + c - m = q - (d - c + m) := by abel
  have e4 : c - (c - m) = m := by abel
  rw [e1, hm, e2, hd, e3, e4]

/-- **the correlation of a function with its own translate is maximal at the true shift**:
`Σ f(m) f(m + s) ≤ Σ f(m)²` for every shift `s` -/
theorem autocorr_max {G : Type} [AddCommGroup G] [Fintype G] (f : G → ℚ) (s : G) :
    ∑ m : G, f m * f (m + s) ≤ ∑ m : G, f m * f m := by
  have h2 : ∑ m : G, f (m + s) * f (m + s) = ∑ m : G, f m * f m :=
    Equiv.sum_comp (Equiv.addRight s) (fun m => f m * f m)
  have h1 : ∑ m : G, (2 * (f m * f (m + s))) ≤ ∑ m : G, (f m * f m + f (m + s) * f (m + s)) := by
    apply Finset.sum_le_sum
    intro m _
    nlinarith [sq_nonneg (f m - f (m + s))]
  rw [Finset.sum_add_distrib, h2, ← Finset.mul_sum] at h1
  linarith

/-- data = `A · (mask translated to q) + B` with `A ≥ 0`: the map is maximal at `q` -/
theorem matched_disk_max {G : Type} [AddCommGroup G] [Fintype G] (c q : G) (mask : G → ℚ) (A B : ℚ)
    (hA : 0 ≤ A) (hsym : ∀ u, mask (c + u) = mask (c - u)) (j : G) :
    gcorr c mask (fun x => A * mask (x - q + c) + B) j ≤ gcorr c mask (fun x => A * mask (x - q + c) + B) q := by
  unfold gcorr
  have expand : ∀ j : G, ∑ m : G, mask m * (A * mask (j + c - m - q + c) + B)
      = A * ∑ m : G, mask m * mask (j + c - m - q + c) + B * ∑ m : G, mask m := by
    intro j
    rw [Finset.mul_sum, Finset.mul_sum, ← Finset.sum_add_distrib]
    apply Finset.sum_congr rfl; intro m _; ring
  rw [expand j, expand q]
  have hq : ∑ m : G, mask m * mask (q + c - m - q + c) = ∑ m : G, mask m * mask m := by
    apply Finset.sum_congr rfl
    intro m _
    have : q + c - m - q + c = c + (c - m) := by abel
    rw [this, hsym]; congr 2; abel
  have hj : ∑ m : G, mask m * mask (j + c - m - q + c) ≤ ∑ m : G, mask m * mask m := by
    have : ∀ m : G, mask (j + c - m - q + c) = mask (m + (q - j)) := by
      intro m
      have e : j + c - m - q + c = c + (c - m - (q - j)) := by abel
      rw [e, hsym]; congr 1; abel
    simp only [this]
    exact autocorr_max mask (q - j)
  rw [hq]
  nlinarith [mul_le_mul_of_nonneg_left hj hA]


section SignMatched
variable {G : Type} [AddCommGroup G] [Fintype G] [DecidableEq G]

/-- a flat disk: amplitude `A` on the pixels `q + S`, background `B` -/
def flatDisk (q : G) (S : Finset G) (A B : ℚ) : G → ℚ := fun x => A * (if x - q ∈ S then 1 else 0) + B

/-- difference of the correlation maps at the disk centre and at any other pixel, term by term -/
theorem flat_corr_diff (c q : G) (mask : G → ℚ) (S : Finset G) (A B : ℚ) (j : G)
    (hsym : ∀ u, u ∈ S ↔ -u ∈ S) :
    gcorr c mask (flatDisk q S A B) q - gcorr c mask (flatDisk q S A B) j
      = A * ∑ u : G, mask (c + u) * ((if u ∈ S then 1 else 0) - (if (j - q) - u ∈ S then (1 : ℚ) else 0)) := by
  unfold gcorr flatDisk
  rw [← Finset.sum_sub_distrib, Finset.mul_sum]
  rw [← Equiv.sum_comp (Equiv.addLeft c) (fun m => mask m * (A * (if q + c - m - q ∈ S then (1:ℚ) else 0) + B)
      - mask m * (A * (if j + c - m - q ∈ S then (1:ℚ) else 0) + B))]
  refine Finset.sum_congr rfl fun u _ => ?_
  simp only [Equiv.coe_addLeft]
  have e1 : q + c - (c + u) - q = -u := by abel
  have e2 : j + c - (c + u) - q = j - q - u := by abel
  simp only [e1, e2]
  have h : (-u ∈ S) ↔ (u ∈ S) := (hsym u).symm
  by_cases hu : u ∈ S
  · have hn : -u ∈ S := h.mpr hu
    simp only [hu, hn, if_true]; ring
  · have hn : -u ∉ S := fun hh => hu (h.mp hh)
    simp only [hu, hn, if_false]; ring

/-- **sign-matched template, flat disk: the correlation map is maximal at the disk centre** -/
theorem sign_matched_max (c q : G) (mask : G → ℚ) (S : Finset G) (A B : ℚ) (hA : 0 ≤ A)
    (hsym : ∀ u, u ∈ S ↔ -u ∈ S)
    (hin : ∀ u ∈ S, 0 ≤ mask (c + u)) (hout : ∀ u, u ∉ S → mask (c + u) ≤ 0) (j : G) :
    gcorr c mask (flatDisk q S A B) j ≤ gcorr c mask (flatDisk q S A B) q := by
  have h := flat_corr_diff c q mask S A B j hsym
  have hs : 0 ≤ ∑ u : G, mask (c + u) * ((if u ∈ S then 1 else 0) - (if (j - q) - u ∈ S then (1 : ℚ) else 0)) := by
    apply Finset.sum_nonneg
    intro u _
    by_cases hu : u ∈ S <;> by_cases hd : j - q - u ∈ S <;> simp only [hu, hd, if_true, if_false]
    · simp
    · have := hin u hu; linarith
    · have := hout u hu; linarith
    · simp
  have : 0 ≤ A * ∑ u : G, mask (c + u) * ((if u ∈ S then 1 else 0) - (if (j - q) - u ∈ S then (1 : ℚ) else 0)) :=
    mul_nonneg hA hs
  linarith

/-- ... and strictly so, as soon as one pixel of the disk with positive weight leaves the shifted disk (or one
pixel of negative weight enters it) -/
theorem sign_matched_strict (c q : G) (mask : G → ℚ) (S : Finset G) (A B : ℚ) (hA : 0 < A)
    (hsym : ∀ u, u ∈ S ↔ -u ∈ S)
    (hin : ∀ u ∈ S, 0 ≤ mask (c + u)) (hout : ∀ u, u ∉ S → mask (c + u) ≤ 0) (j : G)
    (hw : ∃ u, (u ∈ S ∧ j - q - u ∉ S ∧ 0 < mask (c + u)) ∨ (u ∉ S ∧ j - q - u ∈ S ∧ mask (c + u) < 0)) :
    gcorr c mask (flatDisk q S A B) j < gcorr c mask (flatDisk q S A B) q := by
  have h := flat_corr_diff c q mask S A B j hsym
  have hs : 0 < ∑ u : G, mask (c + u) * ((if u ∈ S then 1 else 0) - (if (j - q) - u ∈ S then (1 : ℚ) else 0)) := by
    apply Finset.sum_pos'
    · intro u _
      by_cases hu : u ∈ S <;> by_cases hd : j - q - u ∈ S <;> simp only [hu, hd, if_true, if_false]
      · simp
      · have := hin u hu; linarith
      · have := hout u hu; linarith
      · simp
    · obtain ⟨u, hu⟩ := hw
      refine ⟨u, Finset.mem_univ u, ?_⟩
      rcases hu with ⟨h1, h2, h3⟩ | ⟨h1, h2, h3⟩
      · simp only [h1, h2, if_true, if_false]; linarith
      · simp only [h1, h2, if_true, if_false]; linarith
  have : 0 < A * ∑ u : G, mask (c + u) * ((if u ∈ S then 1 else 0) - (if (j - q) - u ∈ S then (1 : ℚ) else 0)) :=
    mul_pos hA hs
  linarith

/-- a template that is strictly positive on the disk and not positive outside: the maximum at the centre is unique,
provided no non-zero shift maps the disk onto itself -/
theorem sign_matched_unique (c q : G) (mask : G → ℚ) (S : Finset G) (A B : ℚ) (hA : 0 < A)
    (hsym : ∀ u, u ∈ S ↔ -u ∈ S)
    (hin : ∀ u ∈ S, 0 < mask (c + u)) (hout : ∀ u, u ∉ S → mask (c + u) ≤ 0)
    (hshape : ∀ d : G, d ≠ 0 → ∃ u ∈ S, d - u ∉ S) (j : G) (hj : j ≠ q) :
    gcorr c mask (flatDisk q S A B) j < gcorr c mask (flatDisk q S A B) q := by
  have hd : j - q ≠ 0 := sub_ne_zero.mpr hj
  obtain ⟨u, hu, hnu⟩ := hshape (j - q) hd
  exact sign_matched_strict c q mask S A B hA hsym (fun u hu => le_of_lt (hin u hu)) hout j
    ⟨u, Or.inl ⟨hu, hnu, hin u hu⟩⟩

end SignMatched

/-- non-vacuity: a radial-gradient-like template (larger at the rim than at the centre) with a negative surround on the
circular axis `ZMod 7`, disk `{-1, 0, 1}` at pixel 2: all hypotheses of `sign_matched_unique` hold -/
def exMask : ZMod 7 → ℚ := fun x => if x = 3 then 1 else if x = 2 ∨ x = 4 then 2 else -1
def exDisk : Finset (ZMod 7) := {0, 1, 6}

example : ∀ j : ZMod 7, j ≠ 2 →
    gcorr 3 exMask (flatDisk 2 exDisk 5 1) j < gcorr 3 exMask (flatDisk 2 exDisk 5 1) 2 :=
  fun j hj => sign_matched_unique 3 2 exMask exDisk 5 1 (by norm_num) (by decide) (by decide) (by decide) (by decide) j hj


theorem row_sum (g : ℤ → ℚ) (m : ℕ) :
    ((List.range m).map fun (x : ℕ) => g (x : ℤ)).sum = ∑ x ∈ Finset.range m, g x := by
  induction m with
  | zero => simp
  | succ j ih =>
    rw [List.range_succ, List.map_append, List.sum_append, ih, Finset.sum_range_succ]
    simp

/-- row-major double sum as a `Finset` double sum -/
theorem flat_sum (f : ℤ → ℤ → ℚ) (n m : ℕ) :
    lsum (flat f n m) = ∑ y ∈ Finset.range n, ∑ x ∈ Finset.range m, f y x := by
  rw [lsum_eq_sum]
  unfold flat irange
  simp only [Int.toNat_natCast, List.map_map]
  induction n with
  | zero => simp
  | succ k ih =>
    rw [List.range_succ, List.map_append, List.flatMap_append, List.sum_append, ih, Finset.sum_range_succ]
    simp only [List.map_cons, List.map_nil, List.flatMap_cons, List.flatMap_nil, List.append_nil]
    rw [← row_sum (fun x => f k x) m]
    rfl

/-- **centre of mass of a point-symmetric `(2r+1)²` block is its centre** (exactly, for any
non-zero total) -/
theorem com_symmetric (wgt : ℤ → ℤ → ℚ) (r : ℕ)
    (hsym : ∀ y x : ℕ, y ≤ 2 * r → x ≤ 2 * r → wgt y x = wgt ((2 * r - y : ℕ) : ℤ) ((2 * r - x : ℕ) : ℤ))
    (hs : lsum (flat wgt (2 * r + 1 : ℕ) (2 * r + 1 : ℕ)) ≠ 0) :
    lsum (flat (fun y x => wgt y x * (y : ℚ)) (2 * r + 1 : ℕ) (2 * r + 1 : ℕ))
        / lsum (flat wgt (2 * r + 1 : ℕ) (2 * r + 1 : ℕ)) = r ∧
    lsum (flat (fun y x => wgt y x * (x : ℚ)) (2 * r + 1 : ℕ) (2 * r + 1 : ℕ))
        / lsum (flat wgt (2 * r + 1 : ℕ) (2 * r + 1 : ℕ)) = r := by
  rw [flat_sum] at hs ⊢
  rw [flat_sum, flat_sum]
  set N := 2 * r + 1 with hN
  have refl2 : ∀ g : ℕ → ℕ → ℚ, ∑ y ∈ Finset.range N, ∑ x ∈ Finset.range N, g y x
      = ∑ y ∈ Finset.range N, ∑ x ∈ Finset.range N, g (N - 1 - y) (N - 1 - x) := by
    intro g
    rw [← Finset.sum_range_reflect]
    apply Finset.sum_congr rfl
    intro y _
    rw [← Finset.sum_range_reflect]
  have hw : ∀ y ∈ Finset.range N, ∀ x ∈ Finset.range N,
      wgt ((N - 1 - y : ℕ) : ℤ) ((N - 1 - x : ℕ) : ℤ) = wgt y x := by
    intro y hy x hx
    rw [Finset.mem_range] at hy hx
    have := hsym y x (by omega) (by omega)
    rw [this]; congr 2 <;> omega
  have key : ∀ (coord : ℕ → ℕ → ℕ), (∀ y x, y < N → x < N → coord (N - 1 - y) (N - 1 - x) + coord y x = 2 * r) →
      2 * ∑ y ∈ Finset.range N, ∑ x ∈ Finset.range N, wgt y x * ((coord y x : ℕ) : ℚ)
        = 2 * (r : ℚ) * ∑ y ∈ Finset.range N, ∑ x ∈ Finset.range N, wgt y x := by
    intro coord hc
    have h1 := refl2 (fun y x => wgt y x * ((coord y x : ℕ) : ℚ))
    have h2 : ∑ y ∈ Finset.range N, ∑ x ∈ Finset.range N,
          wgt ((N - 1 - y : ℕ) : ℤ) ((N - 1 - x : ℕ) : ℤ) * ((coord (N - 1 - y) (N - 1 - x) : ℕ) : ℚ)
        = ∑ y ∈ Finset.range N, ∑ x ∈ Finset.range N, wgt y x * (2 * (r : ℚ) - ((coord y x : ℕ) : ℚ)) := by
      apply Finset.sum_congr rfl; intro y hy
      apply Finset.sum_congr rfl; intro x hx
      rw [hw y hy x hx]
      have := hc y x (Finset.mem_range.mp hy) (Finset.mem_range.mp hx)
      have : ((coord (N - 1 - y) (N - 1 - x) : ℕ) : ℚ) = 2 * (r : ℚ) - ((coord y x : ℕ) : ℚ) := by
        have h := congrArg (fun n : ℕ => (n : ℚ)) this
        simp only [Nat.cast_add, Nat.cast_mul, Nat.cast_ofNat] at h
        linarith
      rw [this]
    rw [h2] at h1
    have h3 : ∑ y ∈ Finset.range N, ∑ x ∈ Finset.range N, wgt y x * (2 * (r : ℚ) - ((coord y x : ℕ) : ℚ))
        = 2 * (r : ℚ) * ∑ y ∈ Finset.range N, ∑ x ∈ Finset.range N, wgt y x
          - ∑ y ∈ Finset.range N, ∑ x ∈ Finset.range N, wgt y x * ((coord y x : ℕ) : ℚ) := by
      rw [Finset.mul_sum, ← Finset.sum_sub_distrib]
      apply Finset.sum_congr rfl; intro y _
      rw [Finset.mul_sum, ← Finset.sum_sub_distrib]
      apply Finset.sum_congr rfl; intro x _
      ring
    rw [h3] at h1
    linarith
  have ky := key (fun y _ => y) (by intro y x hy hx; omega)
  have kx := key (fun _ x => x) (by intro y x hy hx; omega)
  constructor
  · rw [div_eq_iff hs]
    have : ∑ y ∈ Finset.range N, ∑ x ∈ Finset.range N, wgt y x * (((y : ℕ) : ℤ) : ℚ)
        = ∑ y ∈ Finset.range N, ∑ x ∈ Finset.range N, wgt y x * ((y : ℕ) : ℚ) := by
      apply Finset.sum_congr rfl; intro y _; apply Finset.sum_congr rfl; intro x _; norm_cast
    rw [this]; linarith
  · rw [div_eq_iff hs]
    have : ∑ y ∈ Finset.range N, ∑ x ∈ Finset.range N, wgt y x * (((x : ℕ) : ℤ) : ℚ)
        = ∑ y ∈ Finset.range N, ∑ x ∈ Finset.range N, wgt y x * ((x : ℕ) : ℚ) := by
      apply Finset.sum_congr rfl; intro y _; apply Finset.sum_congr rfl; intro x _; norm_cast
    rw [this]; linarith

/-- hence the refined position equals the integer centre exactly -/
theorem refined_exact (c : ℤ) (r : ℕ) : Model.refined_coord c (r : ℚ) (r : ℤ) = (c : ℚ) := by
  rw [C03.refined_formula]; push_cast; ring

/-! ### composed: a symmetric, uniquely peaked window map is evaluated exactly -/

/-- **Exact location at the model level.**  If a correlation map has a unique maximiser `q` at least
2 px away from the border of the map and is point-symmetric about `q` on the 5×5 neighbourhood
(what `corr_symmetric` gives for a symmetric mask and a symmetric disk, `matched_disk_max` for the
maximum), then the evaluation kernels report integer centre `q` **and refined position exactly `q`**
— for every map size. -/
theorem evaluate_symmetric_exact (corr : ℤ → ℤ → ℚ) (n m : ℕ) (hn : 0 < n) (hm : 0 < m) (qy qx : ℤ)
    (hqy : 2 ≤ qy ∧ qy + 2 < n) (hqx : 2 ≤ qx ∧ qx + 2 < m)
    (hmaxq : IsMaxAt corr n m qy qx)
    (huniq : ∀ y x y' x' : ℤ, IsMaxAt corr n m y x → IsMaxAt corr n m y' x' → y = y' ∧ x = x')
    (hsym : ∀ dy dx : ℤ, -2 ≤ dy → dy ≤ 2 → -2 ≤ dx → dx ≤ 2 → corr (qy + dy) (qx + dx) = corr (qy - dy) (qx - dx)) :
    (evaluate corr n m).cy = qy ∧ (evaluate corr n m).cx = qx ∧
    (evaluate corr n m).ry = (qy : ℚ) ∧ (evaluate corr n m).rx = (qx : ℚ) := by
  obtain ⟨ecy, ecx⟩ := huniq _ _ _ _ (evaluate_isMaxAt corr n m hn hm) hmaxq
  have hry : (evaluate corr n m).ry = (refineCenter corr n m (evaluate corr n m).cy (evaluate corr n m).cx Model.refine_radius).1 := rfl
  have hrx : (evaluate corr n m).rx = (refineCenter corr n m (evaluate corr n m).cy (evaluate corr n m).cx Model.refine_radius).2 := rfl
  rw [hry, hrx, ecy, ecx]
  refine ⟨rfl, rfl, ?_⟩
  -- the refinement around q with the full radius 2
  unfold refineCenter
  simp only []
  have hr : Model.refine_r Model.refine_radius qy qx n m = 2 := by
    unfold Model.refine_r Model.refine_radius; omega
  rw [hr]
  have hg : ¬ (Model.refine_guard 2 = true) := by unfold Model.refine_guard; decide
  rw [if_neg hg]
  have hlo_y : Model.cut_lo qy 2 = qy - 2 := rfl
  have hlo_x : Model.cut_lo qx 2 = qx - 2 := rfl
  have hny : Model.cut_hi qy 2 - Model.cut_lo qy 2 = ((2 * 2 + 1 : ℕ) : ℤ) := by unfold Model.cut_hi Model.cut_lo; push_cast; ring
  have hnx : Model.cut_hi qx 2 - Model.cut_lo qx 2 = ((2 * 2 + 1 : ℕ) : ℤ) := by unfold Model.cut_hi Model.cut_lo; push_cast; ring
  rw [hny, hnx, hlo_y, hlo_x]
  set cut : ℤ → ℤ → ℚ := fun y x => corr (qy - 2 + y) (qx - 2 + x) with hcut
  set mn := minList (flat cut ((2 * 2 + 1 : ℕ) : ℤ) ((2 * 2 + 1 : ℕ) : ℤ)) with hmn
  -- symmetry of the min-subtracted cut-out
  have hsymw : ∀ y x : ℕ, y ≤ 2 * 2 → x ≤ 2 * 2 →
      (fun y x => cut y x - mn) (y : ℤ) (x : ℤ) = (fun y x => cut y x - mn) ((2 * 2 - y : ℕ) : ℤ) ((2 * 2 - x : ℕ) : ℤ) := by
    intro y x hy hx
    simp only [hcut]
    have e1 : qy - 2 + (y : ℤ) = qy + ((y : ℤ) - 2) := by ring
    have e2 : qx - 2 + (x : ℤ) = qx + ((x : ℤ) - 2) := by ring
    have e3 : qy - 2 + ((2 * 2 - y : ℕ) : ℤ) = qy - ((y : ℤ) - 2) := by
      rw [Nat.cast_sub hy]; push_cast; ring
    have e4 : qx - 2 + ((2 * 2 - x : ℕ) : ℤ) = qx - ((x : ℤ) - 2) := by
      rw [Nat.cast_sub hx]; push_cast; ring
    rw [e1, e2, e3, e4, hsym ((y : ℤ) - 2) ((x : ℤ) - 2) (by omega) (by omega) (by omega) (by omega)]
  -- positive total: the corner of the cut-out is strictly below the unique maximum
  have hlt : cut 0 0 < cut 2 2 := by
    simp only [hcut]
    have e1 : qy - 2 + 2 = qy := by ring
    have e2 : qx - 2 + 2 = qx := by ring
    rw [e1, e2, add_zero, add_zero]
    have hle := hmaxq.2.2 (qy - 2) (qx - 2) (by omega) (by omega) (by omega) (by omega)
    rcases lt_or_eq_of_le hle with h | h
    · exact h
    · exfalso
      have hmax2 : IsMaxAt corr n m (qy - 2) (qx - 2) :=
        ⟨⟨by omega, by omega⟩, ⟨by omega, by omega⟩, fun a b ha0 ha1 hb0 hb1 => by
          rw [h]; exact hmaxq.2.2 a b ha0 ha1 hb0 hb1⟩
      have := (huniq _ _ _ _ hmax2 hmaxq).1
      omega
  have hpos := C04.com_total_pos cut ((2 * 2 + 1 : ℕ) : ℤ) ((2 * 2 + 1 : ℕ) : ℤ) 2 2 0 0
    ⟨⟨by norm_num, by norm_num⟩, ⟨by norm_num, by norm_num⟩⟩ ⟨⟨by norm_num, by norm_num⟩, ⟨by norm_num, by norm_num⟩⟩ hlt
  obtain ⟨c1, c2⟩ := com_symmetric (fun y x => cut y x - mn) 2 hsymw (ne_of_gt hpos)
  rw [c1, c2]
  constructor
  · have := refined_exact qy 2; push_cast at this ⊢; exact this
  · have := refined_exact qx 2; push_cast at this ⊢; exact this

/-- a strict maximum over the map is *the* maximiser in the sense the evaluation kernel uses -/
theorem strictMax_isMaxAt (corr : ℤ → ℤ → ℚ) (n m qy qx : ℤ) (hqy : 0 ≤ qy ∧ qy < n) (hqx : 0 ≤ qx ∧ qx < m)
    (hstrict : ∀ a b : ℤ, 0 ≤ a → a < n → 0 ≤ b → b < m → (a, b) ≠ (qy, qx) → corr a b < corr qy qx) :
    IsMaxAt corr n m qy qx ∧
    (∀ y x y' x' : ℤ, IsMaxAt corr n m y x → IsMaxAt corr n m y' x' → y = y' ∧ x = x') := by
  have hmax : IsMaxAt corr n m qy qx := by
    refine ⟨hqy, hqx, fun a b ha0 ha1 hb0 hb1 => ?_⟩
    by_cases h : (a, b) = (qy, qx)
    · have h1 : a = qy := congrArg Prod.fst h
      have h2 : b = qx := congrArg Prod.snd h
      rw [h1, h2]
    · exact le_of_lt (hstrict a b ha0 ha1 hb0 hb1 h)
  have key : ∀ y x : ℤ, IsMaxAt corr n m y x → y = qy ∧ x = qx := by
    intro y x ⟨hy, hx, hmx⟩
    by_contra hne
    have hne' : (y, x) ≠ (qy, qx) := by
      intro h
      exact hne ⟨congrArg Prod.fst h, congrArg Prod.snd h⟩
    have h1 := hstrict y x hy.1 hy.2 hx.1 hx.2 hne'
    have h2 := hmx qy qx hqy.1 hqy.2 hqx.1 hqx.2
    linarith
  refine ⟨hmax, fun y x y' x' h h' => ?_⟩
  obtain ⟨a1, a2⟩ := key y x h
  obtain ⟨b1, b2⟩ := key y' x' h'
  exact ⟨a1.trans b1.symm, a2.trans b2.symm⟩

/-- **strict maximum + point symmetry ⇒ exact centre and exact refined position** (the two hypotheses are what
`sign_matched_unique` / `matched_disk_max` and `corr_symmetric` deliver for a symmetric template on a flat disk) -/
theorem evaluate_strictmax_exact (corr : ℤ → ℤ → ℚ) (n m : ℕ) (hn : 0 < n) (hm : 0 < m) (qy qx : ℤ)
    (hqy : 2 ≤ qy ∧ qy + 2 < n) (hqx : 2 ≤ qx ∧ qx + 2 < m)
    (hstrict : ∀ a b : ℤ, 0 ≤ a → a < n → 0 ≤ b → b < m → (a, b) ≠ (qy, qx) → corr a b < corr qy qx)
    (hsym : ∀ dy dx : ℤ, -2 ≤ dy → dy ≤ 2 → -2 ≤ dx → dx ≤ 2 → corr (qy + dy) (qx + dx) = corr (qy - dy) (qx - dx)) :
    (evaluate corr n m).cy = qy ∧ (evaluate corr n m).cx = qx ∧
    (evaluate corr n m).ry = (qy : ℚ) ∧ (evaluate corr n m).rx = (qx : ℚ) := by
  obtain ⟨h1, h2⟩ := strictMax_isMaxAt corr n m qy qx ⟨by omega, by omega⟩ ⟨by omega, by omega⟩ hstrict
  exact evaluate_symmetric_exact corr n m hn hm qy qx hqy hqx h1 h2 hsym

/-- sum over `range n` as a sum over `ZMod n` (any commutative monoid of values) -/
theorem sum_range_zmod {M : Type} [AddCommMonoid M] (n : ℕ) [NeZero n] (F : ZMod n → M) :
    ∑ i ∈ Finset.range n, F (i : ZMod n) = ∑ a : ZMod n, F a := by
  refine Finset.sum_nbij' (fun i => (i : ZMod n)) (fun a => a.val) ?_ ?_ ?_ ?_ ?_
  · intro i _; exact Finset.mem_univ _
  · intro a _; exact Finset.mem_range.mpr (ZMod.val_lt a)
  · intro i hi; exact ZMod.val_cast_of_lt (Finset.mem_range.mp hi)
  · intro a _; exact ZMod.natCast_zmod_val a
  · intro i _; rfl

/-- an `Int`-indexed image read on the torus -/
def torus (H W : ℕ) (f : ℤ → ℤ → ℚ) : ZMod H × ZMod W → ℚ := fun p => f (p.1.val : ℤ) (p.2.val : ℤ)

/-- the mask centre the `ifftshift` selects -/
def tcentre (H W : ℕ) : ZMod H × ZMod W := ((((H : ℤ) / 2 : ℤ) : ZMod H), (((W : ℤ) / 2 : ℤ) : ZMod W))

theorem val_int_sub (n : ℕ) [NeZero n] (k : ℤ) (m : ZMod n) :
    ((((k : ZMod n) - m).val : ℕ) : ℤ) = (k - (m.val : ℤ)) % (n : ℤ) := by
  have h : (k : ZMod n) - m = ((k - (m.val : ℤ) : ℤ) : ZMod n) := by
    push_cast
    rw [ZMod.natCast_zmod_val]
  rw [h, ZMod.val_intCast]

/-- **the model's correlation map is the group correlation `gcorr` on the torus `ZMod H × ZMod W`**, mask centred on
`(H/2, W/2)`: the theorems about `gcorr` (`corr_symmetric`, `matched_disk_max`, `sign_matched_*`) are theorems about
`corrMap` -/
theorem corrMap_eq_gcorr (mask data : ℤ → ℤ → ℚ) (H W : ℕ) [NeZero H] [NeZero W] (y x : ℤ) :
    corrMap "fft.ifftshift" mask data H W y x
      = gcorr (tcentre H W) (torus H W mask) (torus H W data) ((y : ZMod H), (x : ZMod W)) := by
  unfold corrMap gcorr
  simp only
  rw [Fintype.sum_prod_type, lsum_irange, ← sum_range_zmod H]
  refine Finset.sum_congr rfl fun i hi => ?_
  rw [lsum_irange, ← sum_range_zmod W]
  refine Finset.sum_congr rfl fun j hj => ?_
  have hi' := ZMod.val_cast_of_lt (Finset.mem_range.mp hi)
  have hj' := ZMod.val_cast_of_lt (Finset.mem_range.mp hj)
  unfold torus tcentre shiftSrc
  simp only [true_or, if_true, Prod.fst_add, Prod.snd_add, Prod.fst_sub, Prod.snd_sub]
  rw [hi', hj']
  have e1 : ((y : ZMod H) + (((H : ℤ) / 2 : ℤ) : ZMod H) - ((i : ℕ) : ZMod H)) = (((y + (H : ℤ) / 2 : ℤ) : ZMod H) - ((i : ℕ) : ZMod H)) := by
    push_cast; ring
  have e2 : ((x : ZMod W) + (((W : ℤ) / 2 : ℤ) : ZMod W) - ((j : ℕ) : ZMod W)) = (((x + (W : ℤ) / 2 : ℤ) : ZMod W) - ((j : ℕ) : ZMod W)) := by
    push_cast; ring
  rw [e1, e2, val_int_sub, val_int_sub, hi', hj']
  congr 2
  · rw [Int.sub_emod, Int.emod_emod_of_dvd _ (dvd_refl (H : ℤ)), ← Int.sub_emod]
  · rw [Int.sub_emod, Int.emod_emod_of_dvd _ (dvd_refl (W : ℤ)), ← Int.sub_emod]

theorem cast_inj_range (n : ℕ) [NeZero n] (a b : ℤ) (ha : 0 ≤ a ∧ a < n) (hb : 0 ≤ b ∧ b < n)
    (h : (a : ZMod n) = (b : ZMod n)) : a = b := by
  rw [ZMod.intCast_eq_intCast_iff_dvd_sub] at h
  have : b - a = 0 := Int.eq_zero_of_abs_lt_dvd h (by rw [abs_lt]; constructor <;> omega)
  omega

theorem flatDisk_symmetric {G : Type} [AddCommGroup G] [DecidableEq G] (q : G) (S : Finset G) (A B : ℚ)
    (hS : ∀ u, u ∈ S ↔ -u ∈ S) (u : G) : flatDisk q S A B (q + u) = flatDisk q S A B (q - u) := by
  unfold flatDisk
  have e1 : q + u - q = u := by abel
  have e2 : q - u - q = -u := by abel
  simp only [e1, e2]
  by_cases h : u ∈ S
  · have h' : -u ∈ S := (hS u).mp h
    simp only [h, h', if_true]
  · have h' : -u ∉ S := fun hh => h ((hS u).mpr hh)
    simp only [h, h', if_false]

/-- **end to end, for every sign-matched symmetric template**: the (log-scaled) data is a flat disk `q + S` of amplitude
`A > 0` on a uniform background, on an `H × W` map; the template is point-symmetric about its centre `(H/2, W/2)`,
positive on the disk pixels and not positive elsewhere (circular, radial-gradient, background-subtracting and user
templates of that kind); the disk is not mapped onto itself by a non-zero shift.  Then the evaluation kernels on the
model's correlation map report the integer centre `q` and a refined position exactly `q` — for every map size and
parity, every disk shape and every such template. -/
theorem flat_disk_exact (mask data : ℤ → ℤ → ℚ) (H W : ℕ) [NeZero H] [NeZero W]
    (S : Finset (ZMod H × ZMod W)) (A B : ℚ) (hA : 0 < A) (qy qx : ℤ)
    (hqy : 2 ≤ qy ∧ qy + 2 < H) (hqx : 2 ≤ qx ∧ qx + 2 < W)
    (hS : ∀ u, u ∈ S ↔ -u ∈ S)
    (hmsym : ∀ u, torus H W mask (tcentre H W + u) = torus H W mask (tcentre H W - u))
    (hin : ∀ u ∈ S, 0 < torus H W mask (tcentre H W + u))
    (hout : ∀ u, u ∉ S → torus H W mask (tcentre H W + u) ≤ 0)
    (hshape : ∀ d : ZMod H × ZMod W, d ≠ 0 → ∃ u ∈ S, d - u ∉ S)
    (hdata : torus H W data = flatDisk ((qy : ZMod H), (qx : ZMod W)) S A B) :
    let e := evaluate (corrMap "fft.ifftshift" mask data H W) H W
    e.cy = qy ∧ e.cx = qx ∧ e.ry = (qy : ℚ) ∧ e.rx = (qx : ℚ) := by
  intro e
  have hH : 0 < H := Nat.pos_of_ne_zero (NeZero.ne H)
  have hW : 0 < W := Nat.pos_of_ne_zero (NeZero.ne W)
  refine evaluate_strictmax_exact (corrMap "fft.ifftshift" mask data H W) H W hH hW qy qx hqy hqx ?_ ?_
  · intro a b ha0 ha1 hb0 hb1 hne
    rw [corrMap_eq_gcorr, corrMap_eq_gcorr, hdata]
    apply sign_matched_unique (tcentre H W) _ (torus H W mask) S A B hA hS hin hout hshape
    intro h
    apply hne
    have h1 := cast_inj_range H a qy ⟨ha0, ha1⟩ ⟨by omega, by omega⟩ (congrArg Prod.fst h)
    have h2 := cast_inj_range W b qx ⟨hb0, hb1⟩ ⟨by omega, by omega⟩ (congrArg Prod.snd h)
    rw [h1, h2]
  · intro dy dx _ _ _ _
    rw [corrMap_eq_gcorr, corrMap_eq_gcorr, hdata]
    have e1 : ((((qy + dy : ℤ) : ZMod H)), (((qx + dx : ℤ) : ZMod W)))
        = (((qy : ZMod H), (qx : ZMod W)) : ZMod H × ZMod W) + (((dy : ZMod H), (dx : ZMod W))) := by
      ext <;> simp
    have e2 : ((((qy - dy : ℤ) : ZMod H)), (((qx - dx : ℤ) : ZMod W)))
        = (((qy : ZMod H), (qx : ZMod W)) : ZMod H × ZMod W) - (((dy : ZMod H), (dx : ZMod W))) := by
      ext <;> simp
    rw [e1, e2]
    exact corr_symmetric (tcentre H W) _ (torus H W mask) _ hmsym
      (flatDisk_symmetric _ S A B hS) _

/-- non-vacuity of `flat_disk_exact`: a 7×7 map, plus-shaped disk, a template that is larger on the rim than at the centre
(radial-gradient-like) with a negative surround; disk at pixel (2, 4) -/
def exS : Finset (ZMod 7 × ZMod 7) := {(0, 0), (1, 0), (6, 0), (0, 1), (0, 6)}
def exM : ℤ → ℤ → ℚ := fun y x =>
  if y = 3 ∧ x = 3 then 1 else if (y = 2 ∧ x = 3) ∨ (y = 4 ∧ x = 3) ∨ (y = 3 ∧ x = 2) ∨ (y = 3 ∧ x = 4) then 2 else -1
def exD : ℤ → ℤ → ℚ := fun y x => flatDisk (((2 : ℤ) : ZMod 7), ((4 : ℤ) : ZMod 7)) exS 5 1 ((y : ZMod 7), (x : ZMod 7))

example :
    let e := evaluate (corrMap "fft.ifftshift" exM exD 7 7) 7 7
    e.cy = 2 ∧ e.cx = 4 ∧ e.ry = 2 ∧ e.rx = 4 := by
  have h := flat_disk_exact exM exD 7 7 exS 5 1 (by norm_num) 2 4 (by norm_num) (by norm_num)
    (by decide) (by decide) (by decide) (by decide) (by decide)
    (by funext p; unfold torus exD; simp)
  simpa using h

/-- **the same through the composed crop-based pipeline**: if the window's correlation map has its
unique maximiser at window position `w` (≥ 2 px inside) and is point-symmetric about it on the 5×5
neighbourhood, `fastPeak` reports centre `start − c + w` and the refined position equals it exactly -/
theorem fastPeak_symmetric_exact (L : ℚ → ℚ) (mask frame : ℤ → ℤ → ℚ) (fy fx : ℤ) (c : ℕ) (hc : 0 < c)
    (start : ℤ × ℤ) (wy wx : ℤ) (hwy : 2 ≤ wy ∧ wy + 2 < 2 * c) (hwx : 2 ≤ wx ∧ wx + 2 < 2 * c)
    (hmaxq : IsMaxAt (fastCorr L mask frame fy fx c start) (2 * c : ℕ) (2 * c : ℕ) wy wx)
    (huniq : ∀ y x y' x' : ℤ, IsMaxAt (fastCorr L mask frame fy fx c start) (2 * c : ℕ) (2 * c : ℕ) y x →
      IsMaxAt (fastCorr L mask frame fy fx c start) (2 * c : ℕ) (2 * c : ℕ) y' x' → y = y' ∧ x = x')
    (hsym : ∀ dy dx : ℤ, -2 ≤ dy → dy ≤ 2 → -2 ≤ dx → dx ≤ 2 →
      fastCorr L mask frame fy fx c start (wy + dy) (wx + dx) = fastCorr L mask frame fy fx c start (wy - dy) (wx - dx)) :
    let e := fastPeak L mask frame fy fx c start
    e.cy = start.1 - c + wy ∧ e.cx = start.2 - c + wx ∧ e.ry = ((start.1 - c + wy : ℤ) : ℚ) ∧ e.rx = ((start.2 - c + wx : ℤ) : ℚ) := by
  intro e
  have hcast : (2 * (c : ℤ)) = ((2 * c : ℕ) : ℤ) := by push_cast; ring
  have hpos : 0 < 2 * c := by omega
  have he : e = reanchor (evaluate (fastCorr L mask frame fy fx c start) (2 * c : ℕ) (2 * c : ℕ)) start.1 start.2 c := by
    show reanchor (evaluate (fastCorr L mask frame fy fx c start) (2 * (c : ℤ)) (2 * (c : ℤ))) start.1 start.2 c = _
    rw [hcast]
  obtain ⟨h1, h2, h3, h4⟩ := evaluate_symmetric_exact (fastCorr L mask frame fy fx c start) (2 * c) (2 * c) hpos hpos wy wx
    (by push_cast; omega) (by push_cast; omega) hmaxq huniq hsym
  rw [he]
  unfold reanchor Gen.shift
  simp only []
  rw [h1, h2, h3, h4]
  refine ⟨by ring, by ring, by push_cast; ring, by push_cast; ring⟩

/-- **`flat_disk_exact` through the composed crop-based pipeline** (`process_frame_fast` for one peak): if the
log-scaled crop of the window around `start` is a flat disk at window position `w` (≥ 2 px inside the window) and the
template is symmetric and sign-matched, the reported centre and the refined position are exactly `start − c + w`, the
disk's frame position — for every crop size, start position and such template -/
theorem fastPeak_flat_disk_exact (L : ℚ → ℚ) (mask frame : ℤ → ℤ → ℚ) (fy fx : ℤ) (c : ℕ) (hc : 0 < c)
    (start : ℤ × ℤ) (S : Finset (ZMod (2 * c) × ZMod (2 * c))) (A B : ℚ) (hA : 0 < A) (wy wx : ℤ)
    (hwy : 2 ≤ wy ∧ wy + 2 < 2 * c) (hwx : 2 ≤ wx ∧ wx + 2 < 2 * c)
    (hS : ∀ u, u ∈ S ↔ -u ∈ S)
    (hmsym : ∀ u, torus (2 * c) (2 * c) mask (tcentre (2 * c) (2 * c) + u) = torus (2 * c) (2 * c) mask (tcentre (2 * c) (2 * c) - u))
    (hin : ∀ u ∈ S, 0 < torus (2 * c) (2 * c) mask (tcentre (2 * c) (2 * c) + u))
    (hout : ∀ u, u ∉ S → torus (2 * c) (2 * c) mask (tcentre (2 * c) (2 * c) + u) ≤ 0)
    (hshape : ∀ d : ZMod (2 * c) × ZMod (2 * c), d ≠ 0 → ∃ u ∈ S, d - u ∉ S)
    (hdata : torus (2 * c) (2 * c)
        (logCrop L (fun y x => cropPixel frame fy fx c start.1 start.2 y x) ((2 * c : ℕ) : ℤ) ((2 * c : ℕ) : ℤ))
      = flatDisk ((wy : ZMod (2 * c)), (wx : ZMod (2 * c))) S A B) :
    let e := fastPeak L mask frame fy fx c start
    e.cy = start.1 - c + wy ∧ e.cx = start.2 - c + wx ∧
      e.ry = ((start.1 - c + wy : ℤ) : ℚ) ∧ e.rx = ((start.2 - c + wx : ℤ) : ℚ) := by
  intro e
  have : NeZero (2 * c) := ⟨by omega⟩
  have hcast : (2 * (c : ℤ)) = ((2 * c : ℕ) : ℤ) := by push_cast; ring
  have he : e = reanchor (evaluate (corrMap "fft.ifftshift" mask
      (logCrop L (fun y x => cropPixel frame fy fx c start.1 start.2 y x) ((2 * c : ℕ) : ℤ) ((2 * c : ℕ) : ℤ))
      ((2 * c : ℕ) : ℤ) ((2 * c : ℕ) : ℤ)) ((2 * c : ℕ) : ℤ) ((2 * c : ℕ) : ℤ)) start.1 start.2 c := by
    show reanchor (evaluate (fastCorr L mask frame fy fx c start) (2 * (c : ℤ)) (2 * (c : ℤ))) start.1 start.2 c = _
    unfold fastCorr Gen.fast_corr_shift
    rw [hcast]
  obtain ⟨h1, h2, h3, h4⟩ := flat_disk_exact mask
    (logCrop L (fun y x => cropPixel frame fy fx c start.1 start.2 y x) ((2 * c : ℕ) : ℤ) ((2 * c : ℕ) : ℤ))
    (2 * c) (2 * c) S A B hA wy wx (by push_cast; omega) (by push_cast; omega) hS hmsym hin hout hshape hdata
  rw [he]
  unfold reanchor Gen.shift
  simp only []
  rw [h1, h2, h3, h4]
  refine ⟨by ring, by ring, by push_cast; ring, by push_cast; ring⟩

/-- the two facts about the map of a flat disk with a symmetric sign-matched template (the content of
`flat_disk_exact`): a strict maximum at `q` over the whole `H × W` map, and point symmetry about `q` -/
theorem flat_disk_map_facts (mask data : ℤ → ℤ → ℚ) (H W : ℕ) [NeZero H] [NeZero W]
    (S : Finset (ZMod H × ZMod W)) (A B : ℚ) (hA : 0 < A) (qy qx : ℤ)
    (hqy : 0 ≤ qy ∧ qy < H) (hqx : 0 ≤ qx ∧ qx < W)
    (hS : ∀ u, u ∈ S ↔ -u ∈ S)
    (hmsym : ∀ u, torus H W mask (tcentre H W + u) = torus H W mask (tcentre H W - u))
    (hin : ∀ u ∈ S, 0 < torus H W mask (tcentre H W + u))
    (hout : ∀ u, u ∉ S → torus H W mask (tcentre H W + u) ≤ 0)
    (hshape : ∀ d : ZMod H × ZMod W, d ≠ 0 → ∃ u ∈ S, d - u ∉ S)
    (hdata : torus H W data = flatDisk ((qy : ZMod H), (qx : ZMod W)) S A B) :
    (∀ a b : ℤ, 0 ≤ a → a < H → 0 ≤ b → b < W → (a, b) ≠ (qy, qx) →
        corrMap "fft.ifftshift" mask data H W a b < corrMap "fft.ifftshift" mask data H W qy qx) ∧
    (∀ dy dx : ℤ, corrMap "fft.ifftshift" mask data H W (qy + dy) (qx + dx)
        = corrMap "fft.ifftshift" mask data H W (qy - dy) (qx - dx)) := by
  constructor
  · intro a b ha0 ha1 hb0 hb1 hne
    rw [corrMap_eq_gcorr, corrMap_eq_gcorr, hdata]
    apply sign_matched_unique (tcentre H W) _ (torus H W mask) S A B hA hS hin hout hshape
    intro h
    apply hne
    have h1 := cast_inj_range H a qy ⟨ha0, ha1⟩ hqy (congrArg Prod.fst h)
    have h2 := cast_inj_range W b qx ⟨hb0, hb1⟩ hqx (congrArg Prod.snd h)
    rw [h1, h2]
  · intro dy dx
    rw [corrMap_eq_gcorr, corrMap_eq_gcorr, hdata]
    have e1 : ((((qy + dy : ℤ) : ZMod H)), (((qx + dx : ℤ) : ZMod W)))
        = (((qy : ZMod H), (qx : ZMod W)) : ZMod H × ZMod W) + (((dy : ZMod H), (dx : ZMod W))) := by
      ext <;> simp
    have e2 : ((((qy - dy : ℤ) : ZMod H)), (((qx - dx : ℤ) : ZMod W)))
        = (((qy : ZMod H), (qx : ZMod W)) : ZMod H × ZMod W) - (((dy : ZMod H), (dx : ZMod W))) := by
      ext <;> simp
    rw [e1, e2]
    exact corr_symmetric (tcentre H W) _ (torus H W mask) _ hmsym (flatDisk_symmetric _ S A B hS) _

/-- **`flat_disk_exact` through the composed full-frame pipeline** (`process_frame_full` for one peak): the log-scaled
frame is a flat disk on pixel `q`, the frame-sized template is symmetric and sign-matched; for every start position whose
window lies inside the frame and contains `q` at least 2 px from its border, centre and refined position are exactly `q` -/
theorem fullPeak_flat_disk_exact (L : ℚ → ℚ) (mask frame : ℤ → ℤ → ℚ) (H W : ℕ) [NeZero H] [NeZero W] (c : ℕ) (hc : 0 < c)
    (start : ℤ × ℤ) (S : Finset (ZMod H × ZMod W)) (A B : ℚ) (hA : 0 < A) (qy qx : ℤ)
    (hwy : (c : ℤ) ≤ start.1 ∧ start.1 + c ≤ H) (hwx : (c : ℤ) ≤ start.2 ∧ start.2 + c ≤ W)
    (hqy : 2 ≤ qy - (start.1 - c) ∧ qy - (start.1 - c) + 2 < 2 * c)
    (hqx : 2 ≤ qx - (start.2 - c) ∧ qx - (start.2 - c) + 2 < 2 * c)
    (hS : ∀ u, u ∈ S ↔ -u ∈ S)
    (hmsym : ∀ u, torus H W mask (tcentre H W + u) = torus H W mask (tcentre H W - u))
    (hin : ∀ u ∈ S, 0 < torus H W mask (tcentre H W + u))
    (hout : ∀ u, u ∉ S → torus H W mask (tcentre H W + u) ≤ 0)
    (hshape : ∀ d : ZMod H × ZMod W, d ≠ 0 → ∃ u ∈ S, d - u ∉ S)
    (hdata : torus H W (logFrame L frame H W) = flatDisk ((qy : ZMod H), (qx : ZMod W)) S A B) :
    let e := fullPeak L mask frame H W c start
    e.cy = qy ∧ e.cx = qx ∧ e.ry = (qy : ℚ) ∧ e.rx = (qx : ℚ) := by
  intro e
  obtain ⟨hstrict, hsym⟩ := flat_disk_map_facts mask (logFrame L frame H W) H W S A B hA qy qx
    ⟨by omega, by omega⟩ ⟨by omega, by omega⟩ hS hmsym hin hout hshape hdata
  set corr := corrMap "fft.ifftshift" mask (logFrame L frame H W) H W with hcorr
  have hfull : fullCorr L mask frame H W = corr := by unfold fullCorr Gen.full_corr_shift; rfl
  set oy := start.1 - c with hoy
  set ox := start.2 - c with hox
  have hcast : (2 * (c : ℤ)) = ((2 * c : ℕ) : ℤ) := by push_cast; ring
  have hpos : 0 < 2 * c := by omega
  -- inside the frame the window of the crop is the map itself
  have hag : AgreeOn (fun y x => cropPixel (fullCorr L mask frame H W) H W c start.1 start.2 y x)
      (fun y x => corr (oy + y) (ox + x)) ((2 * c : ℕ) : ℤ) ((2 * c : ℕ) : ℤ) := by
    intro y x hy0 hy1 hx0 hx1
    show cropPixel (fullCorr L mask frame H W) H W c start.1 start.2 y x = corr (oy + y) (ox + x)
    rw [C13.cropPixel_eq_window, hfull]
    unfold window
    rw [if_pos (by push_cast at hy1 hx1; omega)]
  have he : e = reanchor (evaluate (fun y x => corr (oy + y) (ox + x)) ((2 * c : ℕ) : ℤ) ((2 * c : ℕ) : ℤ)) start.1 start.2 c := by
    show reanchor (evaluate (fun y x => cropPixel (fullCorr L mask frame H W) H W c start.1 start.2 y x)
      (2 * (c : ℤ)) (2 * (c : ℤ))) start.1 start.2 c = _
    rw [hcast, evaluate_congr _ _ (2 * c) (2 * c) hpos hpos hag]
  obtain ⟨h1, h2, h3, h4⟩ := evaluate_strictmax_exact (fun y x => corr (oy + y) (ox + x)) (2 * c) (2 * c) hpos hpos
    (qy - oy) (qx - ox) (by push_cast; omega) (by push_cast; omega)
    (by
      intro a b ha0 ha1 hb0 hb1 hne
      have e1 : oy + (qy - oy) = qy := by ring
      have e2 : ox + (qx - ox) = qx := by ring
      show corr (oy + a) (ox + b) < corr (oy + (qy - oy)) (ox + (qx - ox))
      rw [e1, e2]
      apply hstrict (oy + a) (ox + b) (by omega) (by push_cast at ha1; omega) (by omega) (by push_cast at hb1; omega)
      intro h
      apply hne
      have h1 : oy + a = qy := congrArg Prod.fst h
      have h2 : ox + b = qx := congrArg Prod.snd h
      have ha : a = qy - oy := by omega
      have hb : b = qx - ox := by omega
      rw [ha, hb])
    (by
      intro dy dx _ _ _ _
      show corr (oy + (qy - oy + dy)) (ox + (qx - ox + dx)) = corr (oy + (qy - oy - dy)) (ox + (qx - ox - dx))
      have e1 : oy + (qy - oy + dy) = qy + dy := by ring
      have e2 : ox + (qx - ox + dx) = qx + dx := by ring
      have e3 : oy + (qy - oy - dy) = qy - dy := by ring
      have e4 : ox + (qx - ox - dx) = qx - dx := by ring
      rw [e1, e2, e3, e4]
      exact hsym dy dx)
  rw [he]
  unfold reanchor Gen.shift
  simp only []
  rw [h1, h2, h3, h4]
  refine ⟨by omega, by omega, by rw [hoy]; push_cast; ring, by rw [hox]; push_cast; ring⟩

/-- the upsampling step uses the correlation-map centre `ceil(n/2)`, which is exactly the offset
that undoes the `ifftshift` for even *and odd* sizes: map index `j` ↔ signed shift `j − ceil(n/2)` -/
theorem upsample_center_matches_shift (n j : ℤ) (hn : 0 < n) :
    Gen.us_corr_center n = n - n / 2 ∧
    shiftSrc "fft.ifftshift" n j = (j - Gen.us_corr_center n) % n := by
  have hc : Gen.us_corr_center n = n - n / 2 := by
    unfold Gen.us_corr_center
    have h2 : ((n : ℚ) / 2) ≤ ((n - n / 2 : ℤ) : ℚ) := by
      have : (n : ℤ) ≤ 2 * (n - n / 2) := by omega
      have h := (Int.cast_le (R := ℚ)).mpr this
      push_cast at h ⊢; linarith
    have h3 : ((n - n / 2 - 1 : ℤ) : ℚ) < ((n : ℚ) / 2) := by
      have : 2 * (n - n / 2 - 1) < (n : ℤ) := by omega
      have h := (Int.cast_lt (R := ℚ)).mpr this
      push_cast at h ⊢; linarith
    apply le_antisymm
    · exact Rat.ceil_le_iff.mpr h2
    · have := Rat.lt_ceil_iff.mpr h3
      omega
  refine ⟨hc, ?_⟩
  rw [hc]
  unfold shiftSrc
  simp only [true_or, if_true]
  have : j + n / 2 = j - (n - n / 2) + n := by ring
  rw [this, Int.add_emod_right]

/-- the centring facts of C16 this property relies on, for every size -/
theorem centring_chain (n target source : ℤ) (ht : 1 ≤ target) (hs : 1 ≤ source) :
    Gen.mask_center n = n / 2 ∧ utIndex target source (target / 2) = some (source / 2) :=
  ⟨C16.mask_center_floor n, C16.ut_center_maps target source ht hs⟩

end C01
