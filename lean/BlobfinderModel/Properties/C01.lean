import BlobfinderModel.Properties.C04
import BlobfinderModel.Properties.C16
import BlobfinderModel.Proofs.Transpose
import Mathlib.Algebra.BigOperators.Group.Finset.Basic
import Mathlib.Algebra.BigOperators.Intervals
import Mathlib.Algebra.Order.BigOperators.Group.Finset
import Mathlib.Algebra.Group.Fin.Basic
import Mathlib.Tactic.Abel
import Mathlib.Algebra.BigOperators.Ring.Finset
/-!
# C01 — pixel-centred matched disk is located exactly  (partial)

Proved (exact arithmetic):
* index chain: the correlation map reads the mask centred on the evaluated pixel for every size
  parity (`C03.corr_index_map`), masks / user templates / RGBS geometry are centred on `shape // 2`
  (C16), re-anchoring is exact (`C03.shift_unshift`), the upsampling uses the centre `ceil(n/2)` that
  matches the `ifftshift` (`upsample_center_matches_shift`);
* on any finite abelian group of pixel positions (in particular `ZMod h × ZMod w`, the circular
  frame): a mask that is point-symmetric about its centre `c` correlated with data point-symmetric
  about `q` gives a map symmetric about `q` (`corr_symmetric`), and the correlation of a function with
  its own translate is maximal at the true shift (`autocorr_max` — the `Circular` pattern on a disk
  of its own shape);
* the centre of mass of a point-symmetric `(2r+1)²` neighbourhood is its centre, so the refined
  position equals the integer centre exactly (`com_symmetric`, `refined_exact`).
**Not proved**: that radial-gradient / background-subtracting / user templates peak at the disk
centre (uniqueness of the maximum for non-matching templates), the 0.01 px float bound and the
`1.5/upsample` bound — decided by the oracle only.
-/
namespace C01
open Model

/-- circular correlation on a finite abelian group of positions, mask centred at `c` -/
def gcorr {G : Type} [AddCommGroup G] [Fintype G] (c : G) (mask data : G → ℚ) (j : G) : ℚ :=
  ∑ m : G, mask m * data (j + c - m)

/-- **symmetric mask, symmetric data ⇒ symmetric correlation map** (about the data's centre `q`) -/
theorem corr_symmetric {G : Type} [AddCommGroup G] [Fintype G] (c q : G) (mask data : G → ℚ)
    (hm : ∀ u, mask (c + u) = mask (c - u)) (hd : ∀ u, data (q + u) = data (q - u)) (d : G) :
    gcorr c mask data (q + d) = gcorr c mask data (q - d) := by
  unfold gcorr
  rw [← Equiv.sum_comp (Equiv.subLeft (c + c))]
  apply Finset.sum_congr rfl
  intro m _
  simp only [Equiv.subLeft_apply]
  have e1 : c + c - m = c + (c - m) := by abel
  have e2 : q + d + c - (c + (c - m)) = q + (d - c + m) := by abel
  have e3 : q - d + c - m = q - (d - c + m) := by abel
  have e4 : c - (c - m) = m := by abel
  rw [e1, hm, e2, hd, e3, e4]

/-- **the correlation of a function with its own translate is maximal at the true shift**:
`Σ f(m) f(m + s) ≤ Σ f(m)²` for every shift `s` -/
theorem autocorr_max {G : Type} [AddCommGroup G] [Fintype G] (f : G → ℚ) (s : G) :
    ∑ m : G, f m * f (m + s) ≤ ∑ m : G, f m * f m := by
  have h2 : ∑ m : G, f (m + s) * f (m + s) = ∑ m : G, f m * f m :=
    Equiv.sum_comp (Equiv.addRight s) (fun m => f m * f m)
  have h1 : ∑ m : G, (2 * (f m * f (m + s))) ≤ ∑ m : G, (f m * f m + f (m + s) * f (m + s)) := by
    apply Finset.sum_le_sum
    intro m _
    nlinarith [sq_nonneg (f m - f (m + s))]
  rw [Finset.sum_add_distrib, h2, ← Finset.mul_sum] at h1
  linarith

/-- data = `A · (mask translated to q) + B` with `A ≥ 0`: the map is maximal at `q` -/
theorem matched_disk_max {G : Type} [AddCommGroup G] [Fintype G] (c q : G) (mask : G → ℚ) (A B : ℚ)
    (hA : 0 ≤ A) (hsym : ∀ u, mask (c + u) = mask (c - u)) (j : G) :
    gcorr c mask (fun x => A * mask (x - q + c) + B) j ≤ gcorr c mask (fun x => A * mask (x - q + c) + B) q := by
  unfold gcorr
  have expand : ∀ j : G, ∑ m : G, mask m * (A * mask (j + c - m - q + c) + B)
      = A * ∑ m : G, mask m * mask (j + c - m - q + c) + B * ∑ m : G, mask m := by
    intro j
    rw [Finset.mul_sum, Finset.mul_sum, ← Finset.sum_add_distrib]
    apply Finset.sum_congr rfl; intro m _; ring
  rw [expand j, expand q]
  have hq : ∑ m : G, mask m * mask (q + c - m - q + c) = ∑ m : G, mask m * mask m := by
    apply Finset.sum_congr rfl
    intro m _
    have : q + c - m - q + c = c + (c - m) := by abel
    rw [this, hsym]; congr 2; abel
  have hj : ∑ m : G, mask m * mask (j + c - m - q + c) ≤ ∑ m : G, mask m * mask m := by
    have : ∀ m : G, mask (j + c - m - q + c) = mask (m + (q - j)) := by
      intro m
      have e : j + c - m - q + c = c + (c - m - (q - j)) := by abel
      rw [e, hsym]; congr 1; abel
    simp only [this]
    exact autocorr_max mask (q - j)
  rw [hq]
  nlinarith [mul_le_mul_of_nonneg_left hj hA]

theorem row_sum (g : ℤ → ℚ) (m : ℕ) :
    ((List.range m).map fun (x : ℕ) => g (x : ℤ)).sum = ∑ x ∈ Finset.range m, g x := by
  induction m with
  | zero => simp
  | succ j ih =>
    rw [List.range_succ, List.map_append, List.sum_append, ih, Finset.sum_range_succ]
    simp

/-- row-major double sum as a `Finset` double sum -/
theorem flat_sum (f : ℤ → ℤ → ℚ) (n m : ℕ) :
    lsum (flat f n m) = ∑ y ∈ Finset.range n, ∑ x ∈ Finset.range m, f y x := by
  rw [lsum_eq_sum]
  unfold flat irange
  simp only [Int.toNat_natCast, List.map_map]
  induction n with
  | zero => simp
  | succ k ih =>
    rw [List.range_succ, List.map_append, List.flatMap_append, List.sum_append, ih, Finset.sum_range_succ]
    simp only [List.map_cons, List.map_nil, List.flatMap_cons, List.flatMap_nil, List.append_nil]
    rw [← row_sum (fun x => f k x) m]
    rfl

/-- **centre of mass of a point-symmetric `(2r+1)²` block is its centre** (exactly, for any
non-zero total) -/
theorem com_symmetric (wgt : ℤ → ℤ → ℚ) (r : ℕ)
    (hsym : ∀ y x : ℕ, y ≤ 2 * r → x ≤ 2 * r → wgt y x = wgt ((2 * r - y : ℕ) : ℤ) ((2 * r - x : ℕ) : ℤ))
    (hs : lsum (flat wgt (2 * r + 1 : ℕ) (2 * r + 1 : ℕ)) ≠ 0) :
    lsum (flat (fun y x => wgt y x * (y : ℚ)) (2 * r + 1 : ℕ) (2 * r + 1 : ℕ))
        / lsum (flat wgt (2 * r + 1 : ℕ) (2 * r + 1 : ℕ)) = r ∧
    lsum (flat (fun y x => wgt y x * (x : ℚ)) (2 * r + 1 : ℕ) (2 * r + 1 : ℕ))
        / lsum (flat wgt (2 * r + 1 : ℕ) (2 * r + 1 : ℕ)) = r := by
  rw [flat_sum] at hs ⊢
  rw [flat_sum, flat_sum]
  set N := 2 * r + 1 with hN
  have refl2 : ∀ g : ℕ → ℕ → ℚ, ∑ y ∈ Finset.range N, ∑ x ∈ Finset.range N, g y x
      = ∑ y ∈ Finset.range N, ∑ x ∈ Finset.range N, g (N - 1 - y) (N - 1 - x) := by
    intro g
    rw [← Finset.sum_range_reflect]
    apply Finset.sum_congr rfl
    intro y _
    rw [← Finset.sum_range_reflect]
  have hw : ∀ y ∈ Finset.range N, ∀ x ∈ Finset.range N,
      wgt ((N - 1 - y : ℕ) : ℤ) ((N - 1 - x : ℕ) : ℤ) = wgt y x := by
    intro y hy x hx
    rw [Finset.mem_range] at hy hx
    have := hsym y x (by omega) (by omega)
    rw [this]; congr 2 <;> omega
  have key : ∀ (coord : ℕ → ℕ → ℕ), (∀ y x, y < N → x < N → coord (N - 1 - y) (N - 1 - x) + coord y x = 2 * r) →
      2 * ∑ y ∈ Finset.range N, ∑ x ∈ Finset.range N, wgt y x * ((coord y x : ℕ) : ℚ)
        = 2 * (r : ℚ) * ∑ y ∈ Finset.range N, ∑ x ∈ Finset.range N, wgt y x := by
    intro coord hc
    have h1 := refl2 (fun y x => wgt y x * ((coord y x : ℕ) : ℚ))
    have h2 : ∑ y ∈ Finset.range N, ∑ x ∈ Finset.range N,
          wgt ((N - 1 - y : ℕ) : ℤ) ((N - 1 - x : ℕ) : ℤ) * ((coord (N - 1 - y) (N - 1 - x) : ℕ) : ℚ)
        = ∑ y ∈ Finset.range N, ∑ x ∈ Finset.range N, wgt y x * (2 * (r : ℚ) - ((coord y x : ℕ) : ℚ)) := by
      apply Finset.sum_congr rfl; intro y hy
      apply Finset.sum_congr rfl; intro x hx
      rw [hw y hy x hx]
      have := hc y x (Finset.mem_range.mp hy) (Finset.mem_range.mp hx)
      have : ((coord (N - 1 - y) (N - 1 - x) : ℕ) : ℚ) = 2 * (r : ℚ) - ((coord y x : ℕ) : ℚ) := by
        have h := congrArg (fun n : ℕ => (n : ℚ)) this
        simp only [Nat.cast_add, Nat.cast_mul, Nat.cast_ofNat] at h
        linarith
      rw [this]
    rw [h2] at h1
    have h3 : ∑ y ∈ Finset.range N, ∑ x ∈ Finset.range N, wgt y x * (2 * (r : ℚ) - ((coord y x : ℕ) : ℚ))
        = 2 * (r : ℚ) * ∑ y ∈ Finset.range N, ∑ x ∈ Finset.range N, wgt y x
          - ∑ y ∈ Finset.range N, ∑ x ∈ Finset.range N, wgt y x * ((coord y x : ℕ) : ℚ) := by
      rw [Finset.mul_sum, ← Finset.sum_sub_distrib]
      apply Finset.sum_congr rfl; intro y _
      rw [Finset.mul_sum, ← Finset.sum_sub_distrib]
      apply Finset.sum_congr rfl; intro x _
      ring
    rw [h3] at h1
    linarith
  have ky := key (fun y _ => y) (by intro y x hy hx; omega)
  have kx := key (fun _ x => x) (by intro y x hy hx; omega)
  constructor
  · rw [div_eq_iff hs]
    have : ∑ y ∈ Finset.range N, ∑ x ∈ Finset.range N, wgt y x * (((y : ℕ) : ℤ) : ℚ)
        = ∑ y ∈ Finset.range N, ∑ x ∈ Finset.range N, wgt y x * ((y : ℕ) : ℚ) := by
      apply Finset.sum_congr rfl; intro y _; apply Finset.sum_congr rfl; intro x _; norm_cast
    rw [this]; linarith
  · rw [div_eq_iff hs]
    have : ∑ y ∈ Finset.range N, ∑ x ∈ Finset.range N, wgt y x * (((x : ℕ) : ℤ) : ℚ)
        = ∑ y ∈ Finset.range N, ∑ x ∈ Finset.range N, wgt y x * ((x : ℕ) : ℚ) := by
      apply Finset.sum_congr rfl; intro y _; apply Finset.sum_congr rfl; intro x _; norm_cast
    rw [this]; linarith

/-- hence the refined position equals the integer centre exactly -/
theorem refined_exact (c : ℤ) (r : ℕ) : Model.refined_coord c (r : ℚ) (r : ℤ) = (c : ℚ) := by
  rw [C03.refined_formula]; push_cast; ring

/-! ### composed: a symmetric, uniquely peaked window map is evaluated exactly -/

/-- **Exact location at the model level.**  If a correlation map has a unique maximiser `q` at least
2 px away from the border of the map and is point-symmetric about `q` on the 5×5 neighbourhood
(what `corr_symmetric` gives for a symmetric mask and a symmetric disk, `matched_disk_max` for the
maximum), then the evaluation kernels report integer centre `q` **and refined position exactly `q`**
— for every map size. -/
theorem evaluate_symmetric_exact (corr : ℤ → ℤ → ℚ) (n m : ℕ) (hn : 0 < n) (hm : 0 < m) (qy qx : ℤ)
    (hqy : 2 ≤ qy ∧ qy + 2 < n) (hqx : 2 ≤ qx ∧ qx + 2 < m)
    (hmaxq : IsMaxAt corr n m qy qx)
    (huniq : ∀ y x y' x' : ℤ, IsMaxAt corr n m y x → IsMaxAt corr n m y' x' → y = y' ∧ x = x')
    (hsym : ∀ dy dx : ℤ, -2 ≤ dy → dy ≤ 2 → -2 ≤ dx → dx ≤ 2 → corr (qy + dy) (qx + dx) = corr (qy - dy) (qx - dx)) :
    (evaluate corr n m).cy = qy ∧ (evaluate corr n m).cx = qx ∧
    (evaluate corr n m).ry = (qy : ℚ) ∧ (evaluate corr n m).rx = (qx : ℚ) := by
  obtain ⟨ecy, ecx⟩ := huniq _ _ _ _ (evaluate_isMaxAt corr n m hn hm) hmaxq
  have hry : (evaluate corr n m).ry = (refineCenter corr n m (evaluate corr n m).cy (evaluate corr n m).cx Model.refine_radius).1 := rfl
  have hrx : (evaluate corr n m).rx = (refineCenter corr n m (evaluate corr n m).cy (evaluate corr n m).cx Model.refine_radius).2 := rfl
  rw [hry, hrx, ecy, ecx]
  refine ⟨rfl, rfl, ?_⟩
  -- the refinement around q with the full radius 2
  unfold refineCenter
  simp only []
  have hr : Model.refine_r Model.refine_radius qy qx n m = 2 := by
    unfold Model.refine_r Model.refine_radius; omega
  rw [hr]
  have hg : ¬ (Model.refine_guard 2 = true) := by unfold Model.refine_guard; decide
  rw [if_neg hg]
  have hlo_y : Model.cut_lo qy 2 = qy - 2 := rfl
  have hlo_x : Model.cut_lo qx 2 = qx - 2 := rfl
  have hny : Model.cut_hi qy 2 - Model.cut_lo qy 2 = ((2 * 2 + 1 : ℕ) : ℤ) := by unfold Model.cut_hi Model.cut_lo; push_cast; ring
  have hnx : Model.cut_hi qx 2 - Model.cut_lo qx 2 = ((2 * 2 + 1 : ℕ) : ℤ) := by unfold Model.cut_hi Model.cut_lo; push_cast; ring
  rw [hny, hnx, hlo_y, hlo_x]
  set cut : ℤ → ℤ → ℚ := fun y x => corr (qy - 2 + y) (qx - 2 + x) with hcut
  set mn := minList (flat cut ((2 * 2 + 1 : ℕ) : ℤ) ((2 * 2 + 1 : ℕ) : ℤ)) with hmn
  -- symmetry of the min-subtracted cut-out
  have hsymw : ∀ y x : ℕ, y ≤ 2 * 2 → x ≤ 2 * 2 →
      (fun y x => cut y x - mn) (y : ℤ) (x : ℤ) = (fun y x => cut y x - mn) ((2 * 2 - y : ℕ) : ℤ) ((2 * 2 - x : ℕ) : ℤ) := by
    intro y x hy hx
    simp only [hcut]
    have e1 : qy - 2 + (y : ℤ) = qy + ((y : ℤ) - 2) := by ring
    have e2 : qx - 2 + (x : ℤ) = qx + ((x : ℤ) - 2) := by ring
    have e3 : qy - 2 + ((2 * 2 - y : ℕ) : ℤ) = qy - ((y : ℤ) - 2) := by
      rw [Nat.cast_sub hy]; push_cast; ring
    have e4 : qx - 2 + ((2 * 2 - x : ℕ) : ℤ) = qx - ((x : ℤ) - 2) := by
      rw [Nat.cast_sub hx]; push_cast; ring
    rw [e1, e2, e3, e4, hsym ((y : ℤ) - 2) ((x : ℤ) - 2) (by omega) (by omega) (by omega) (by omega)]
  -- positive total: the corner of the cut-out is strictly below the unique maximum
  have hlt : cut 0 0 < cut 2 2 := by
    simp only [hcut]
    have e1 : qy - 2 + 2 = qy := by ring
    have e2 : qx - 2 + 2 = qx := by ring
    rw [e1, e2, add_zero, add_zero]
    have hle := hmaxq.2.2 (qy - 2) (qx - 2) (by omega) (by omega) (by omega) (by omega)
    rcases lt_or_eq_of_le hle with h | h
    · exact h
    · exfalso
      have hmax2 : IsMaxAt corr n m (qy - 2) (qx - 2) :=
        ⟨⟨by omega, by omega⟩, ⟨by omega, by omega⟩, fun a b ha0 ha1 hb0 hb1 => by
          rw [h]; exact hmaxq.2.2 a b ha0 ha1 hb0 hb1⟩
      have := (huniq _ _ _ _ hmax2 hmaxq).1
      omega
  have hpos := C04.com_total_pos cut ((2 * 2 + 1 : ℕ) : ℤ) ((2 * 2 + 1 : ℕ) : ℤ) 2 2 0 0
    ⟨⟨by norm_num, by norm_num⟩, ⟨by norm_num, by norm_num⟩⟩ ⟨⟨by norm_num, by norm_num⟩, ⟨by norm_num, by norm_num⟩⟩ hlt
  obtain ⟨c1, c2⟩ := com_symmetric (fun y x => cut y x - mn) 2 hsymw (ne_of_gt hpos)
  rw [c1, c2]
  constructor
  · have := refined_exact qy 2; push_cast at this ⊢; exact this
  · have := refined_exact qx 2; push_cast at this ⊢; exact this

/-- **the same through the composed crop-based pipeline**: if the window's correlation map has its
unique maximiser at window position `w` (≥ 2 px inside) and is point-symmetric about it on the 5×5
neighbourhood, `fastPeak` reports centre `start − c + w` and the refined position equals it exactly -/
theorem fastPeak_symmetric_exact (L : ℚ → ℚ) (mask frame : ℤ → ℤ → ℚ) (fy fx : ℤ) (c : ℕ) (hc : 0 < c)
    (start : ℤ × ℤ) (wy wx : ℤ) (hwy : 2 ≤ wy ∧ wy + 2 < 2 * c) (hwx : 2 ≤ wx ∧ wx + 2 < 2 * c)
    (hmaxq : IsMaxAt (fastCorr L mask frame fy fx c start) (2 * c : ℕ) (2 * c : ℕ) wy wx)
    (huniq : ∀ y x y' x' : ℤ, IsMaxAt (fastCorr L mask frame fy fx c start) (2 * c : ℕ) (2 * c : ℕ) y x →
      IsMaxAt (fastCorr L mask frame fy fx c start) (2 * c : ℕ) (2 * c : ℕ) y' x' → y = y' ∧ x = x')
    (hsym : ∀ dy dx : ℤ, -2 ≤ dy → dy ≤ 2 → -2 ≤ dx → dx ≤ 2 →
      fastCorr L mask frame fy fx c start (wy + dy) (wx + dx) = fastCorr L mask frame fy fx c start (wy - dy) (wx - dx)) :
    let e := fastPeak L mask frame fy fx c start
    e.cy = start.1 - c + wy ∧ e.cx = start.2 - c + wx ∧ e.ry = ((start.1 - c + wy : ℤ) : ℚ) ∧ e.rx = ((start.2 - c + wx : ℤ) : ℚ) := by
  intro e
  have hcast : (2 * (c : ℤ)) = ((2 * c : ℕ) : ℤ) := by push_cast; ring
  have hpos : 0 < 2 * c := by omega
  have he : e = reanchor (evaluate (fastCorr L mask frame fy fx c start) (2 * c : ℕ) (2 * c : ℕ)) start.1 start.2 c := by
    show reanchor (evaluate (fastCorr L mask frame fy fx c start) (2 * (c : ℤ)) (2 * (c : ℤ))) start.1 start.2 c = _
    rw [hcast]
  obtain ⟨h1, h2, h3, h4⟩ := evaluate_symmetric_exact (fastCorr L mask frame fy fx c start) (2 * c) (2 * c) hpos hpos wy wx
    (by push_cast; omega) (by push_cast; omega) hmaxq huniq hsym
  rw [he]
  unfold reanchor Gen.shift
  simp only []
  rw [h1, h2, h3, h4]
  refine ⟨by ring, by ring, by push_cast; ring, by push_cast; ring⟩

/-- the upsampling step uses the correlation-map centre `ceil(n/2)`, which is exactly the offset
that undoes the `ifftshift` for even *and odd* sizes: map index `j` ↔ signed shift `j − ceil(n/2)` -/
theorem upsample_center_matches_shift (n j : ℤ) (hn : 0 < n) :
    Gen.us_corr_center n = n - n / 2 ∧
    shiftSrc "fft.ifftshift" n j = (j - Gen.us_corr_center n) % n := by
  have hc : Gen.us_corr_center n = n - n / 2 := by
    unfold Gen.us_corr_center
    have h2 : ((n : ℚ) / 2) ≤ ((n - n / 2 : ℤ) : ℚ) := by
      have : (n : ℤ) ≤ 2 * (n - n / 2) := by omega
      have h := (Int.cast_le (R := ℚ)).mpr this
      push_cast at h ⊢; linarith
    have h3 : ((n - n / 2 - 1 : ℤ) : ℚ) < ((n : ℚ) / 2) := by
      have : 2 * (n - n / 2 - 1) < (n : ℤ) := by omega
      have h := (Int.cast_lt (R := ℚ)).mpr this
      push_cast at h ⊢; linarith
    apply le_antisymm
    · exact Rat.ceil_le_iff.mpr h2
    · have := Rat.lt_ceil_iff.mpr h3
      omega
  refine ⟨hc, ?_⟩
  rw [hc]
  unfold shiftSrc
  simp only [true_or, if_true]
  have : j + n / 2 = j - (n - n / 2) + n := by ring
  rw [this, Int.add_emod_right]

/-- the centring facts of C16 this property relies on, for every size -/
theorem centring_chain (n target source : ℤ) (ht : 1 ≤ target) (hs : 1 ≤ source) :
    Gen.mask_center n = n / 2 ∧ utIndex target source (target / 2) = some (source / 2) :=
  ⟨C16.mask_center_floor n, C16.ut_center_maps target source ht hs⟩

end C01
