import BlobfinderModel.Properties.C04
import Mathlib.Analysis.SpecialFunctions.Exp
import Mathlib.Analysis.Complex.Norm
import Mathlib.Analysis.SpecialFunctions.Complex.Circle
/-!
# C02 — sub-pixel accuracy bound for refined positions  (partial: logical core only)

Proved: (1) the objective `|Σ_f C_f e^{2πi f·τ}|` maximised by the upsampled DFT is bounded by
`Σ_f |C_f|` and attains the bound where all phases vanish — for a centro-symmetric mask correlated
with a Fourier-shifted copy of itself that is the true shift; (2) the candidate grid of the
upsampling has spacing `1/us` and spans at least `[−1/2, 1/2 − 1/us]` around the integer maximum for
every `us ≥ 2` (generated constants); (3) the centre-of-mass refinement stays within the clipped
radius (C04).
**Not proved, and not provable with what is here**: the constants 1 px, 0.5 px and
`1/us + 0.03 px` of the statement. They are empirical properties of a float pipeline over a
continuum of rendered inputs; they are decided by the oracle search only.
-/
namespace C02
open Model

/-- modulus of a sum of phasors with non-negative amplitudes is at most the sum of the amplitudes … -/
theorem phasor_sum_le {ι : Type} (s : Finset ι) (ρ θ : ι → ℝ) (hρ : ∀ f ∈ s, 0 ≤ ρ f) :
    ‖∑ f ∈ s, (ρ f : ℂ) * Complex.exp (θ f * Complex.I)‖ ≤ ∑ f ∈ s, ρ f := by
  calc ‖∑ f ∈ s, (ρ f : ℂ) * Complex.exp (θ f * Complex.I)‖
      ≤ ∑ f ∈ s, ‖(ρ f : ℂ) * Complex.exp (θ f * Complex.I)‖ := norm_sum_le _ _
    _ = ∑ f ∈ s, ρ f := by
        apply Finset.sum_congr rfl
        intro f hf
        rw [norm_mul, Complex.norm_exp_ofReal_mul_I, mul_one, Complex.norm_real, Real.norm_eq_abs,
          abs_of_nonneg (hρ f hf)]

/-- … with equality when all phases vanish (the true shift) -/
theorem phasor_sum_max {ι : Type} (s : Finset ι) (ρ : ι → ℝ) (hρ : ∀ f ∈ s, 0 ≤ ρ f) :
    ‖∑ f ∈ s, (ρ f : ℂ) * Complex.exp ((0 : ℝ) * Complex.I)‖ = ∑ f ∈ s, ρ f := by
  simp only [Complex.ofReal_zero, zero_mul, Complex.exp_zero, mul_one]
  rw [← Complex.ofReal_sum, Complex.norm_real, Real.norm_eq_abs, abs_of_nonneg (Finset.sum_nonneg hρ)]

/-- **the candidate grid covers half a pixel on both sides of the integer maximum** with spacing
`1/us`: lowest offset ≤ −1/2, highest offset ≥ 1/2 − 1/us, for every factor ≥ 2 -/
theorem upsample_grid_cover (us : ℤ) (hus : 2 ≤ us) :
    ((0 - Gen.us_dftshift (Gen.us_region us) : ℤ) : ℚ) / (us : ℚ) ≤ -(1 / 2) ∧
    1 / 2 - 1 / (us : ℚ) ≤ ((Gen.us_region us - 1 - Gen.us_dftshift (Gen.us_region us) : ℤ) : ℚ) / (us : ℚ) := by
  have husq : (0 : ℚ) < (us : ℚ) := by exact_mod_cast (by omega : (0 : ℤ) < us)
  have hus2 : (2 : ℚ) ≤ (us : ℚ) := by exact_mod_cast hus
  have hreg_lo : ((us : ℚ) * (3 / 2)) ≤ (Gen.us_region us : ℚ) := by
    unfold Gen.us_region; exact Rat.le_ceil
  set R := Gen.us_region us with hR
  have hd : Gen.us_dftshift R = (((R : ℤ) : ℚ) / 2).floor := by
    unfold Gen.us_dftshift
    rw [if_neg (by linarith)]
  have hfl_le : (((((R : ℤ) : ℚ) / 2).floor : ℤ) : ℚ) ≤ (R : ℚ) / 2 := Rat.floor_le _
  have hfl_gt : (R : ℚ) / 2 < ((((R : ℤ) : ℚ) / 2).floor : ℚ) + 1 := by
    have := Rat.lt_floor_add_one ((R : ℚ) / 2)
    push_cast at this
    exact this
  -- floor(R/2) ≥ (R-1)/2 because 2*floor(R/2) is an integer ≥ R - 1
  have hfl_ge : ((R : ℚ) - 1) / 2 ≤ ((((R : ℤ) : ℚ) / 2).floor : ℚ) := by
    have h1 : (R : ℤ) < 2 * ((((R : ℤ) : ℚ) / 2).floor + 1) := by
      have : (R : ℚ) < 2 * (((((R : ℤ) : ℚ) / 2).floor : ℚ) + 1) := by linarith
      exact_mod_cast this
    have h2 : (R : ℤ) - 1 ≤ 2 * (((R : ℤ) : ℚ) / 2).floor := by omega
    have : ((R : ℚ) - 1) ≤ 2 * ((((R : ℤ) : ℚ) / 2).floor : ℚ) := by exact_mod_cast h2
    linarith
  rw [hd]
  constructor
  · rw [div_le_iff₀ husq]
    push_cast
    nlinarith
  · rw [le_div_iff₀ husq]
    push_cast
    have e : (1 / 2 - 1 / (us : ℚ)) * (us : ℚ) = (us : ℚ) / 2 - 1 := by field_simp
    rw [e]
    nlinarith

theorem upsample_spacing (us k : ℤ) (hus : 1 ≤ us) :
    ((k + 1 - Gen.us_dftshift (Gen.us_region us) : ℤ) : ℚ) / (us : ℚ)
      - ((k - Gen.us_dftshift (Gen.us_region us) : ℤ) : ℚ) / (us : ℚ) = 1 / (us : ℚ) := by
  have husq : (us : ℚ) ≠ 0 := by
    have : (0 : ℚ) < (us : ℚ) := by exact_mod_cast (by omega : (0 : ℤ) < us)
    exact ne_of_gt this
  push_cast
  field_simp
  ring

/-- the centre-of-mass refinement cannot move further than the clipped radius (from C04) -/
theorem com_bounded (c r : ℤ) (com : ℚ) (hr : 0 ≤ r ∧ r ≤ 2) (hcom : 0 ≤ com ∧ com ≤ (2 * r + 1 : ℤ) - 1) :
    |Model.refined_coord c com r - (c : ℚ)| ≤ 2 := by
  have := C04.refine_within_r c r com hr hcom
  linarith [this.1, this.2]

end C02
