import BlobfinderModel.Proofs.Eval
import BlobfinderModel.Proofs.FourierBridge
import BlobfinderModel.Proofs.Rfft
import BlobfinderModel.Proofs.Kernels
import BlobfinderModel.Properties.C19
/-!
# C03 — outputs equal their documented definitions on a direct correlation  (partial)

Proved: the evaluation kernels' model (argmax = first maximum, clipped refinement radius and
cut-out in bounds, refined = centre + COM − r, elevation from slopes at distance ≥ r_min) with the
constants `2` and `3/2` *as the source has them now*; the index map of the correlation
(`ifftshift`: the mask is centred on the evaluated pixel for every size parity); the log-scaling
argument `x − min + 1` (per crop in the crop-based method, per frame in the full-frame method).
**Assumed (A-FFT)**: `irfft2(rfft2(mask)·rfft2(data), s)` is the circular convolution — the real
maps are compared with the model's exact direct sum by the correspondence.
-/
namespace C03
open Model

/-- height = maximum of the map, centre = first position attaining it -/
theorem argmax_is_first_max (l : List ℚ) (hne : l ≠ []) :
    ∃ hr : argmaxFirst l < l.length,
      (∀ j (hj : j < l.length), l[j] ≤ l[argmaxFirst l]) ∧
      (∀ j (hj : j < l.length), j < argmaxFirst l → l[j] < l[argmaxFirst l]) :=
  argmaxFirst_spec l hne

/-- **C03 at the model level: the reported height is the maximum of the map over the window, the
reported centre is inside the window, attains the maximum, and is the first such position in
row-major order** — for every map and every size. -/
theorem evaluate_center_is_max (corr : ℤ → ℤ → ℚ) (n m : ℕ) (hn : 0 < n) (hm : 0 < m) :
    let e := evaluate corr n m
    (0 ≤ e.cy ∧ e.cy < n) ∧ (0 ≤ e.cx ∧ e.cx < m) ∧ e.height = corr e.cy e.cx ∧
    (∀ y x : ℕ, y < n → x < m → corr y x ≤ e.height) ∧
    (∀ y x : ℕ, y < n → x < m → ((y * m + x : ℕ) : ℤ) < e.cy * m + e.cx → corr y x < e.height) := by
  have hne := flat_ne_nil corr n m hn hm
  obtain ⟨hr, hmax, hfirst⟩ := argmaxFirst_spec (flat corr n m) hne
  set a := argmaxFirst (flat corr n m) with ha
  have halt : a < n * m := by rw [flat_length] at hr; exact hr
  have hcy : ((a : ℤ) / (m : ℤ)) = ((a / m : ℕ) : ℤ) := by norm_cast
  have hcx : ((a : ℤ) % (m : ℤ)) = ((a % m : ℕ) : ℤ) := by norm_cast
  have hdiv : a / m < n := Nat.div_lt_of_lt_mul (by rw [Nat.mul_comm]; exact halt)
  have hmod : a % m < m := Nat.mod_lt _ hm
  have hval : (flat corr n m)[a] = corr ((a / m : ℕ) : ℤ) ((a % m : ℕ) : ℤ) := flat_getElem corr n m a halt
  have ecy : (evaluate corr n m).cy = ((a / m : ℕ) : ℤ) := by
    show ((argmaxFirst (flat corr n m) : ℕ) : ℤ) / (m : ℤ) = _
    rw [← ha, hcy]
  have ecx : (evaluate corr n m).cx = ((a % m : ℕ) : ℤ) := by
    show ((argmaxFirst (flat corr n m) : ℕ) : ℤ) % (m : ℤ) = _
    rw [← ha, hcx]
  have eh : (evaluate corr n m).height = corr (evaluate corr n m).cy (evaluate corr n m).cx := rfl
  have hval' : (evaluate corr n m).height = (flat corr n m)[a] := by rw [eh, ecy, ecx, hval]
  show (0 ≤ (evaluate corr n m).cy ∧ (evaluate corr n m).cy < n) ∧ (0 ≤ (evaluate corr n m).cx ∧ (evaluate corr n m).cx < m) ∧
    (evaluate corr n m).height = corr (evaluate corr n m).cy (evaluate corr n m).cx ∧
    (∀ y x : ℕ, y < n → x < m → corr y x ≤ (evaluate corr n m).height) ∧
    (∀ y x : ℕ, y < n → x < m → ((y * m + x : ℕ) : ℤ) < (evaluate corr n m).cy * m + (evaluate corr n m).cx →
      corr y x < (evaluate corr n m).height)
  refine ⟨⟨by rw [ecy]; exact Int.natCast_nonneg _, by rw [ecy]; exact_mod_cast hdiv⟩,
    ⟨by rw [ecx]; exact Int.natCast_nonneg _, by rw [ecx]; exact_mod_cast hmod⟩,
    eh, ?_, ?_⟩
  · intro y x hy hx
    obtain ⟨hj, hv⟩ := flat_at corr n m y x hy hx
    rw [← hv, hval']
    exact hmax _ hj
  · intro y x hy hx hlt
    obtain ⟨hj, hv⟩ := flat_at corr n m y x hy hx
    rw [← hv, hval']
    apply hfirst _ hj
    rw [ecy, ecx] at hlt
    have h2 : m * (a / m) + a % m = a := Nat.div_add_mod a m
    have h3 : ((a / m : ℕ) : ℤ) * m + ((a % m : ℕ) : ℤ) = (a : ℤ) := by
      have : ((m * (a / m) + a % m : ℕ) : ℤ) = (a : ℤ) := by rw [h2]
      simp only [Nat.cast_add, Nat.cast_mul] at this
      linarith [mul_comm ((m : ℕ) : ℤ) (((a / m : ℕ)) : ℤ)]
    rw [h3] at hlt
    exact_mod_cast hlt

/-- the constants of the evaluation model (hand-written; `evaluate_one_is_generated` below proves the model built with
them equal to the loop body of `evaluate_correlations` as translated from the source, so a change of the radius `2` or of
the default `r_min = 1.5` in the source breaks that theorem) -/
theorem constants :
    Model.refine_radius = 2 ∧ Model.elev_rmin = 3 / 2 ∧
    (∀ dist r : ℚ, Model.elev_in_range dist r = true ↔ r ≤ dist) := by
  refine ⟨rfl, by unfold Model.elev_rmin; norm_num, ?_⟩
  intro dist r; unfold Model.elev_in_range; simp

/-- the refinement radius is `min(r, y, x, h−y−1, w−x−1)`: 2 clipped at the window border -/
theorem refine_clip (r y x h w : ℤ) :
    Model.refine_r r y x h w = min r (min y (min x (min (h - y - 1) (w - x - 1)))) := by
  unfold Model.refine_r; omega

/-- for a centre inside the map the cut-out `[c−r, c+r]` is a `(2r+1)²` block inside the map
(no out-of-bounds read of the numba kernel), and the guard `r ≤ 0` covers the border case -/
theorem refine_cut_in_bounds (y x h w : ℤ) (hy : 0 ≤ y ∧ y < h) (hx : 0 ≤ x ∧ x < w) :
    let r := Model.refine_r Model.refine_radius y x h w
    0 ≤ r ∧ r ≤ 2 ∧
    (Model.refine_guard r = false →
      0 ≤ Model.cut_lo y r ∧ Model.cut_hi y r ≤ h ∧ 0 ≤ Model.cut_lo x r ∧ Model.cut_hi x r ≤ w ∧
      Model.cut_hi y r - Model.cut_lo y r = 2 * r + 1 ∧ Model.cut_hi x r - Model.cut_lo x r = 2 * r + 1) := by
  simp only [refine_clip]
  unfold Model.refine_radius Model.refine_guard Model.cut_lo Model.cut_hi
  refine ⟨by omega, by omega, ?_⟩
  intro _
  omega

/-- refined = centre + centre of mass of the cut-out − r (cut-out coordinates start at c − r) -/
theorem refined_formula (c r : ℤ) (com : ℚ) : Model.refined_coord c com r = (c : ℚ) + com - (r : ℚ) := by
  unfold Model.refined_coord; ring

/-- results are re-anchored by `+ peak − crop_size`; `_unshift` is the inverse -/
theorem shift_unshift (v anchor c : ℤ) :
    Gen.shift v anchor c = v + anchor - c ∧ Gen.unshift (Gen.shift v anchor c) anchor c = v := by
  unfold Gen.shift Gen.unshift; omega

/-- log scaling: `log(x − min + 1)`; the crop-based variant subtracts `m = min − 1` per crop,
which is the same argument with the crop's own minimum -/
theorem logscale_def (x m mn : ℚ) :
    Gen.log_arg x m = x - m + 1 ∧ Gen.cropbuf_log_arg x (Gen.cropbuf_m mn) = Gen.log_arg x mn := by
  unfold Gen.log_arg Gen.cropbuf_log_arg Gen.cropbuf_m
  constructor <;> ring

/-- **`Model.refineCenter` is the generated `refine_center` (which calls the generated
`center_of_mass`)**: same clip, same guard, same cut-out, same minimum subtraction, same moments. -/
theorem refine_center_is_generated (corr : ℤ → ℤ → ℚ) (h w cy cx r : ℤ) :
    refineCenter corr h w cy cx r = Gen.refine_center corr h w cy cx r := by
  unfold refineCenter Gen.refine_center Gen.center_of_mass Model.refine_r Model.refine_guard Model.cut_lo Model.cut_hi
    Model.refined_coord
  simp only [decide_eq_true_eq]

/-- the candidate slopes of the generated kernel (before squaring) -/
def genCands (sqrt : ℚ → ℚ) (corr : ℤ → ℤ → ℚ) (h w : ℤ) (py px height rmin_ : ℚ) : List ℚ :=
  (irange h).flatMap fun (y : ℤ) => (irange w).filterMap fun (x : ℤ) =>
    if (sqrt (((y : ℚ) - py) ^ 2 + ((x : ℚ) - px) ^ 2) ≥ rmin_) ∧ True
    then some ((height - corr y x) / sqrt (((y : ℚ) - py) ^ 2 + ((x : ℚ) - px) ^ 2)) else none

theorem gen_peak_elevation_eq (sqrt : ℚ → ℚ) (corr : ℤ → ℤ → ℚ) (h w : ℤ) (py px height rmin_ : ℚ) :
    Gen.peak_elevation corr h w sqrt py px height rmin_ = optMax0 (minOpt (genCands sqrt corr h w py px height rmin_)) := rfl

/-- **`Model.elevation2` is the square of the generated `peak_elevation`** for any function `sqrt`
that is a square root on the non-negative rationals that occur (`sqrt t ≥ 0`, `sqrt t · sqrt t = t`),
when `height` is an upper bound of the map (it is its maximum).  The model compares squares because
the rationals have no square roots; this theorem is what licenses that. -/
theorem peak_elevation_is_generated (sqrt : ℚ → ℚ) (hs : ∀ t : ℚ, 0 ≤ t → 0 ≤ sqrt t ∧ sqrt t * sqrt t = t)
    (corr : ℤ → ℤ → ℚ) (h w : ℤ) (py px height : ℚ)
    (hmax : ∀ y x : ℤ, 0 ≤ y → y < h → 0 ≤ x → x < w → corr y x ≤ height) :
    (Gen.peak_elevation corr h w sqrt py px height Model.elev_rmin).map (· ^ 2) = elevation2 corr h w py px height := by
  rw [gen_peak_elevation_eq, elevation2_eq_minOpt]
  have hr : (0 : ℚ) ≤ Model.elev_rmin := by unfold Model.elev_rmin; norm_num
  have hrpos : (0 : ℚ) < Model.elev_rmin := by unfold Model.elev_rmin; norm_num
  -- cell-wise correspondence
  have hcell : ∀ y x : ℤ, 0 ≤ y → y < h → 0 ≤ x → x < w →
      ((if (sqrt (((y : ℚ) - py) ^ 2 + ((x : ℚ) - px) ^ 2) ≥ Model.elev_rmin) ∧ True
        then some ((height - corr y x) / sqrt (((y : ℚ) - py) ^ 2 + ((x : ℚ) - px) ^ 2)) else none : Option ℚ).map (· ^ 2)
        = (if Model.elev_rmin * Model.elev_rmin ≤ ((y : ℚ) - py) ^ 2 + ((x : ℚ) - px) ^ 2
            then some ((height - corr y x) ^ 2 / (((y : ℚ) - py) ^ 2 + ((x : ℚ) - px) ^ 2)) else none))
      ∧ ∀ v, (if (sqrt (((y : ℚ) - py) ^ 2 + ((x : ℚ) - px) ^ 2) ≥ Model.elev_rmin) ∧ True
        then some ((height - corr y x) / sqrt (((y : ℚ) - py) ^ 2 + ((x : ℚ) - px) ^ 2)) else none : Option ℚ) = some v → 0 ≤ v := by
    intro y x hy0 hy1 hx0 hx1
    set d2 := ((y : ℚ) - py) ^ 2 + ((x : ℚ) - px) ^ 2 with hd2
    have hd2nn : 0 ≤ d2 := by positivity
    obtain ⟨hsn, hss⟩ := hs d2 hd2nn
    have hiff : (sqrt d2 ≥ Model.elev_rmin ∧ True) ↔ Model.elev_rmin * Model.elev_rmin ≤ d2 := by
      constructor
      · rintro ⟨hge, _⟩
        calc Model.elev_rmin * Model.elev_rmin ≤ sqrt d2 * sqrt d2 := mul_le_mul hge hge hr hsn
          _ = d2 := hss
      · intro hle
        refine ⟨?_, trivial⟩
        by_contra hlt
        push Not at hlt
        have : sqrt d2 * sqrt d2 < Model.elev_rmin * Model.elev_rmin := mul_lt_mul'' hlt hlt hsn hsn
        rw [hss] at this
        linarith
    by_cases hc : Model.elev_rmin * Model.elev_rmin ≤ d2
    · have hc' := hiff.mpr hc
      rw [if_pos hc', if_pos hc]
      have hpos : 0 < sqrt d2 := lt_of_lt_of_le hrpos hc'.1
      refine ⟨?_, ?_⟩
      · simp only [Option.map_some]
        congr 1
        rw [div_pow, sq (sqrt d2), hss]
      · intro v hv
        rw [← Option.some.inj hv]
        exact div_nonneg (by linarith [hmax y x hy0 hy1 hx0 hx1]) (le_of_lt hpos)
    · have hc' : ¬ (sqrt d2 ≥ Model.elev_rmin ∧ True) := fun hh => hc (hiff.mp hh)
      rw [if_neg hc', if_neg hc]
      exact ⟨rfl, fun v hv => by cases hv⟩
  have hnonneg : ∀ v ∈ genCands sqrt corr h w py px height Model.elev_rmin, 0 ≤ v := by
    intro v hv
    unfold genCands at hv
    simp only [List.mem_flatMap, List.mem_filterMap, mem_irange] at hv
    obtain ⟨y, hy, x, hx, hvx⟩ := hv
    exact (hcell y x hy.1 hy.2 hx.1 hx.2).2 v hvx
  have hmap : (genCands sqrt corr h w py px height Model.elev_rmin).map (· ^ 2) = elevCands corr h w py px height := by
    unfold genCands elevCands
    rw [List.map_flatMap]
    apply List.flatMap_congr
    intro y hy
    rw [List.map_filterMap]
    apply List.filterMap_congr
    intro x hx
    rw [mem_irange] at hy hx
    exact (hcell y x hy.1 hy.2 hx.1 hx.2).1
  rw [minOpt_sq _ hnonneg, hmap]

/-- **One iteration of `evaluate_correlations`, as translated from the source on this run, is the
model's `evaluate` followed by the re-anchoring**: centre, refined position and height coincide, and
the squared elevation of the model is the square of the generated elevation (for every `sqrt` that
squares back on the non-negative rationals).  This ties the whole per-peak evaluation — argmax,
`unravel_index` as `(idx / w, idx % w)`, `refine_center(center, 2, corr)`, `corr[center]`, the two
`_shift` calls and `peak_elevation(refined, corr, height)` with its default `r_min` — to the source. -/
theorem evaluate_one_is_generated (sqrt : ℚ → ℚ) (hs : ∀ t : ℚ, 0 ≤ t → 0 ≤ sqrt t ∧ sqrt t * sqrt t = t)
    (corr : ℤ → ℤ → ℚ) (n m : ℕ) (hn : 0 < n) (hm : 0 < m) (p0 p1 c : ℤ) :
    let e := evaluate corr n m
    let g := Gen.evaluate_one corr n m sqrt p0 p1 c
    g.1 = (Gen.shift e.cy p0 c, Gen.shift e.cx p1 c) ∧
    g.2.1 = (e.ry + ((Gen.shift 0 p0 c : ℤ) : ℚ), e.rx + ((Gen.shift 0 p1 c : ℤ) : ℚ)) ∧
    g.2.2.1 = e.height ∧ g.2.2.2.map (· ^ 2) = e.elev2 := by
  intro e g
  obtain ⟨_, _, hh, hmax, _⟩ := evaluate_center_is_max corr n m hn hm
  have hrf : refineCenter corr n m e.cy e.cx Model.refine_radius = Gen.refine_center corr n m e.cy e.cx 2 :=
    refine_center_is_generated corr n m e.cy e.cx 2
  have hry : e.ry = (Gen.refine_center corr n m e.cy e.cx 2).1 := by rw [← hrf]; rfl
  have hrx : e.rx = (Gen.refine_center corr n m e.cy e.cx 2).2 := by rw [← hrf]; rfl
  refine ⟨rfl, ?_, rfl, ?_⟩
  · show ((Gen.refine_center corr n m e.cy e.cx 2).1 + (p0 : ℚ) - (c : ℚ), (Gen.refine_center corr n m e.cy e.cx 2).2 + (p1 : ℚ) - (c : ℚ)) = _
    rw [← hry, ← hrx]
    unfold Gen.shift
    apply Prod.ext <;> simp only [] <;> push_cast <;> ring
  · show (Gen.peak_elevation corr n m sqrt (Gen.refine_center corr n m e.cy e.cx 2).1 (Gen.refine_center corr n m e.cy e.cx 2).2
        (corr e.cy e.cx) Model.elev_rmin).map (· ^ 2) = e.elev2
    rw [← hry, ← hrx, ← hh]
    have := peak_elevation_is_generated sqrt hs corr n m e.ry e.rx e.height (by
      intro y x hy0 hy1 hx0 hx1
      have := hmax y.toNat x.toNat (by omega) (by omega)
      rw [Int.toNat_of_nonneg hy0, Int.toNat_of_nonneg hx0] at this
      exact this)
    rw [this]
    rfl

/-- a 1-D convolution with a delta at `q` reads the mask at `(k − q) mod n` -/
theorem conv_delta (mask : ℤ → ℚ) (n q k : ℤ) (hn : 0 < n) (hq : 0 ≤ q ∧ q < n) :
    circConv1 mask (fun t => if t = q then 1 else 0) n k = mask ((k - q) % n) := by
  unfold circConv1 irange
  rw [lsum_eq_sum, List.map_map]
  have hm0 : 0 ≤ (k - q) % n := Int.emod_nonneg _ (by omega)
  have hm1 : (k - q) % n < n := Int.emod_lt_of_pos _ hn
  rw [sum_range_single_lt _ ((k - q) % n).toNat]
  · have e : ((((k - q) % n).toNat : ℕ) : ℤ) = (k - q) % n := Int.toNat_of_nonneg hm0
    rw [if_pos (by omega)]
    simp only [Function.comp, e]
    have : (k - (k - q) % n) % n = q := by
      have h1 : (k - (k - q) % n) % n = (k - (k - q)) % n := by
        rw [Int.sub_emod, Int.emod_emod_of_dvd _ (dvd_refl n), ← Int.sub_emod]
      rw [h1]; simp only [sub_sub_cancel]; exact Int.emod_eq_of_lt hq.1 hq.2
    rw [if_pos this]; ring
  · intro m hmlt hm
    simp only [Function.comp]
    have hmn : (m : ℤ) < n := by omega
    rw [if_neg, mul_zero]
    intro hcon
    apply hm
    have h2 : ((k - q) % n) = (m : ℤ) % n := by
      have : (k - (m : ℤ)) % n = q % n := by
        rw [hcon]; exact (Int.emod_eq_of_lt hq.1 hq.2).symm
      have h3 : (k - q) % n = ((m : ℤ) + ((k - (m:ℤ)) - q)) % n := by congr 1; ring
      rw [h3, Int.add_emod, Int.sub_emod, this, ← Int.sub_emod, sub_self]
      simp
    rw [Int.emod_eq_of_lt (by omega) hmn] at h2
    omega

/-- **Index map of the correlation (one axis): with `ifftshift` the response to a delta at `q`
evaluated at `j` is the mask value at `n//2 + (j − q)` — the mask centre sits on `j = q` for every
size `n`, even or odd.** -/
theorem corr_index_map (mask : ℤ → ℚ) (n q j : ℤ) (hn : 0 < n) (hq : 0 ≤ q ∧ q < n) :
    circConv1 mask (fun t => if t = q then 1 else 0) n (shiftSrc "fft.ifftshift" n j)
      = mask ((j + n / 2 - q) % n) := by
  rw [conv_delta mask n q _ hn hq]
  unfold shiftSrc
  simp only [true_or, if_true]
  congr 1
  rw [Int.sub_emod, Int.emod_emod_of_dvd _ (dvd_refl n), ← Int.sub_emod]

/-- at `j = q` this is the mask centre `n//2`, for all `n ≥ 1` -/
theorem corr_peak_index (mask : ℤ → ℚ) (n q : ℤ) (hn : 0 < n) (hq : 0 ≤ q ∧ q < n) :
    circConv1 mask (fun t => if t = q then 1 else 0) n (shiftSrc "fft.ifftshift" n q) = mask (n / 2) := by
  rw [corr_index_map mask n q q hn hq]
  congr 1
  have : q + n / 2 - q = n / 2 := by ring
  rw [this]
  exact Int.emod_eq_of_lt (by omega) (by omega)

/-- Defect D4 shape: with `fftshift` and odd `n` the mask centre is hit one pixel early
(`n = 3`, `q = 1`: the response at `j = 1` reads mask[2], the centre mask[1] is read at `j = 0`). -/
theorem fftshift_counterexample :
    shiftSrc "fft.fftshift" 3 1 = 0 ∧ shiftSrc "fft.ifftshift" 3 1 = 2 ∧
    shiftSrc "fft.fftshift" 4 1 = shiftSrc "fft.ifftshift" 4 1 := by decide

/-- **The FFT route equals the direct sum (mathematical part of A-FFT), for every frame size and
both pipelines as the source has them now**: the value the model's direct circular sum gives at map
position `(y, x)` is the inverse 2-D discrete Fourier transform of the product of the 2-D DFTs of
mask and data, read at index `((y + H//2) mod H, (x + W//2) mod W)` — which is what
`ifftshift(irfft2(rfft2(mask) * rfft2(data), s=(H, W)))[y, x]` denotes.  What stays assumed about
NumPy is only that `rfft2` / `irfft2` compute these transforms (Hermitian-packed, rounded). -/
theorem corr_is_fft_route (mask data : ℤ → ℤ → ℚ) (H W : ℕ) [NeZero H] [NeZero W] (y x : ℤ) :
    (((corrMap Gen.fast_corr_shift mask data H W y x : ℚ) : ℂ)
      = Fourier.invDft2 (fun k1 k2 => Fourier.dft2 (liftZ H W mask) k1 k2 * Fourier.dft2 (liftZ H W data) k1 k2)
          (((y + (H : ℤ) / 2) % (H : ℤ) : ℤ) : ZMod H) (((x + (W : ℤ) / 2) % (W : ℤ) : ℤ) : ZMod W)) ∧
    (((corrMap Gen.full_corr_shift mask data H W y x : ℚ) : ℂ)
      = Fourier.invDft2 (fun k1 k2 => Fourier.dft2 (liftZ H W mask) k1 k2 * Fourier.dft2 (liftZ H W data) k1 k2)
          (((y + (H : ℤ) / 2) % (H : ℤ) : ℤ) : ZMod H) (((x + (W : ℤ) / 2) % (W : ℤ) : ℤ) : ZMod W)) := by
  constructor <;> rw [corrMap_eq_invDft2] <;> rfl

/-- the rational image as a real image on the torus -/
noncomputable def liftR (H W : ℕ) (f : ℤ → ℤ → ℚ) : ZMod H → ZMod W → ℝ :=
  fun a b => ((f (a.val : ℤ) (b.val : ℤ) : ℚ) : ℝ)

theorem liftZ_eq_liftR (H W : ℕ) (f : ℤ → ℤ → ℚ) :
    liftZ H W f = fun a b => ((liftR H W f a b : ℝ) : ℂ) := by
  funext a b
  unfold liftZ liftR
  push_cast
  rfl

/-- **the route of the code, as written, for every frame shape and both pipelines**: the model's correlation map at
`(y, x)` is `ifftshift(irfft2(rfft2(mask) * rfft2(data), s=(H, W)))[y, x]`, where `rfft2` keeps the column frequencies
`0 … W/2` of the 2-D DFT and `irfft2(·, s)` inverts the Hermitian extension of such a half spectrum
(`Fourier.rfft2`, `Fourier.irfft2`: the documented meaning of the NumPy calls — the remaining content of A-FFT, besides
rounding).  Odd `W` included: the half spectrum of width `W/2 + 1` does not determine `W` (`Fourier.half_spectrum_ambiguous`),
which is why the explicit `s=` is needed (defect D1). -/
theorem corr_is_rfft_route (mask data : ℤ → ℤ → ℚ) (H W : ℕ) [NeZero H] [NeZero W] (y x : ℤ) :
    (((corrMap Gen.fast_corr_shift mask data H W y x : ℚ) : ℂ)
      = Fourier.irfft2 (W := W) (fun a m => Fourier.rfft2 (liftZ H W mask) a m * Fourier.rfft2 (liftZ H W data) a m)
          (((y + (H : ℤ) / 2) % (H : ℤ) : ℤ) : ZMod H) (((x + (W : ℤ) / 2) % (W : ℤ) : ℤ) : ZMod W)) ∧
    (((corrMap Gen.full_corr_shift mask data H W y x : ℚ) : ℂ)
      = Fourier.irfft2 (W := W) (fun a m => Fourier.rfft2 (liftZ H W mask) a m * Fourier.rfft2 (liftZ H W data) a m)
          (((y + (H : ℤ) / 2) % (H : ℤ) : ℤ) : ZMod H) (((x + (W : ℤ) / 2) % (W : ℤ) : ℤ) : ZMod W)) := by
  have key : Fourier.irfft2 (W := W) (fun a m => Fourier.rfft2 (liftZ H W mask) a m * Fourier.rfft2 (liftZ H W data) a m)
      = Fourier.cconv2 (liftZ H W mask) (liftZ H W data) := by
    rw [liftZ_eq_liftR H W mask, liftZ_eq_liftR H W data]
    exact Fourier.irfft2_mul_rfft2 (liftR H W mask) (liftR H W data)
  rw [key]
  constructor <;> rw [corrMap_eq_cconv2] <;> rfl

/-- the spectra multiplied by the implementation are Hermitian (real inputs), and so is their
product — the half spectrum kept by `rfft2` determines the whole, and `irfft2` returns a real map -/
theorem real_spectrum_hermitian {N : ℕ} [NeZero N] (f g : ZMod N → ℝ) (k : ZMod N) :
    ZMod.dft (fun j => (f j : ℂ)) (-k) * ZMod.dft (fun j => (g j : ℂ)) (-k)
      = (starRingEnd ℂ) (ZMod.dft (fun j => (f j : ℂ)) k * ZMod.dft (fun j => (g j : ℂ)) k) :=
  Fourier.hermitian_mul _ _ (Fourier.dft_real_hermitian f) (Fourier.dft_real_hermitian g) k

/-- non-vacuity: evaluation of a 4×4 map with a unique maximum at (2,1) -/
example : (evaluate (fun y x => if y = 2 ∧ x = 1 then 5 else if y = 2 ∧ x = 2 then 3 else 1) 4 4).cy = 2
    ∧ (evaluate (fun y x => if y = 2 ∧ x = 1 then 5 else if y = 2 ∧ x = 2 then 3 else 1) 4 4).cx = 1
    ∧ (evaluate (fun y x => if y = 2 ∧ x = 1 then 5 else if y = 2 ∧ x = 2 then 3 else 1) 4 4).height = 5 := by
  decide +kernel

end C03
