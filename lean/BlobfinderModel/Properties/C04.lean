import BlobfinderModel.Properties.C03
import BlobfinderModel.Properties.C13
import BlobfinderModel.Gen.Blocks
import BlobfinderModel.Properties.C08
import BlobfinderModel.Model.Pipeline
import BlobfinderModel.Proofs.Transpose
/-!
# C04 — results stay in the search window and are well-formed for arbitrary data
Proved: index / sign / finiteness *logic*.  Residual (A-FLOAT): finiteness of the FFT pipeline
itself for finite input.
-/
namespace C04
open Model

/-- **The integer centre lies in `[peak − c, peak + c − 1]` on both axes**: the argmax index of a
`2c × 2c` window, unravelled and re-anchored with the generated `_shift`. -/
theorem center_in_window (c peak0 peak1 : ℤ) (idx : ℤ) (hc : 1 ≤ c) (hidx : 0 ≤ idx ∧ idx < (2 * c) * (2 * c)) :
    let cy := idx / (2 * c)
    let cx := idx % (2 * c)
    peak0 - c ≤ Gen.shift cy peak0 c ∧ Gen.shift cy peak0 c ≤ peak0 + c - 1 ∧
    peak1 - c ≤ Gen.shift cx peak1 c ∧ Gen.shift cx peak1 c ≤ peak1 + c - 1 := by
  simp only []
  unfold Gen.shift
  have h1 : 0 ≤ idx / (2 * c) := Int.ediv_nonneg hidx.1 (by omega)
  have h2 : idx / (2 * c) < 2 * c := Int.ediv_lt_of_lt_mul (by omega) hidx.2
  have h3 : 0 ≤ idx % (2 * c) := Int.emod_nonneg _ (by omega)
  have h4 : idx % (2 * c) < 2 * c := Int.emod_lt_of_pos _ (by omega)
  omega

/-- two's-complement / modular storage of an integer in a 16 bit array element -/
def wrapInt16 (v : ℤ) : ℤ := (v + 2 ^ 15) % 2 ^ 16 - 2 ^ 15
def wrapUInt16 (v : ℤ) : ℤ := v % 2 ^ 16

/-- … in which every value of magnitude below 2¹⁵ is stored as itself (no wrap-around) -/
theorem center_no_wrap (v : ℤ) (h : -2 ^ 15 ≤ v ∧ v < 2 ^ 15) : wrapInt16 v = v := by
  unfold wrapInt16
  have : (v + 2 ^ 15) % 2 ^ 16 = v + 2 ^ 15 := Int.emod_eq_of_lt (by omega) (by omega)
  omega

/-- Defect D2 (pre-repair `uint16`): the centre −10 was returned as 65526 -/
theorem uint16_prefix_counterexample : wrapUInt16 (-10) = 65526 ∧ wrapInt16 (-10) = -10 := by decide

/-- Defect D19 (pre-repair): the slicing back-end computed the window origin `y + peak - crop_size` in the dtype of the
peak array; for an unsigned 32-bit position 3 and crop size 7 the origin −4 became 4294967292.  For every unsigned width the
origin of a window that starts above / left of the frame (`peak < crop_size`) is not representable, while the signed 64-bit
arithmetic of the per-pixel kernel and the Python integers of the repaired code hold it exactly. -/
theorem unsigned_origin_counterexample : (0 + 3 - 7 : ℤ) % 2 ^ 32 = 4294967292 ∧ (0 + 3 - 7 : ℤ) = -4 := by decide

theorem unsigned_origin_wraps (bits : ℕ) (peak c : ℤ) (hlt : peak < c) :
    (0 + peak - c) % 2 ^ bits ≠ 0 + peak - c := by
  intro h
  have hpos : (0 : ℤ) < 2 ^ bits := by positivity
  have := Int.emod_nonneg (0 + peak - c) (ne_of_gt hpos)
  omega

/-- every cell of the min-subtracted cut-out is non-negative -/
theorem cutout_nonneg (cut : ℤ → ℤ → ℚ) (n m y x : ℤ) (hy : 0 ≤ y ∧ y < n) (hx : 0 ≤ x ∧ x < m) :
    0 ≤ cut y x - minList (flat cut n m) := by
  have : cut y x ∈ flat cut n m := by
    rw [flat_eq_map]
    exact List.mem_map.mpr ⟨(y, x), (mem_pairsL n m (y, x)).mpr ⟨hy, hx⟩, rfl⟩
  linarith [minList_le _ _ this]

/-- **centre of mass of non-negative weights with positive total lies inside the cut-out**:
`0 ≤ Σ w·y / Σ w ≤ n − 1` (and likewise in x) -/
theorem com_in_hull (wgt : ℤ → ℤ → ℚ) (n m : ℤ) (hw : ∀ y x, 0 ≤ y → y < n → 0 ≤ x → x < m → 0 ≤ wgt y x)
    (hs : 0 < lsum (flat wgt n m)) :
    0 ≤ lsum (flat (fun y x => wgt y x * (y : ℚ)) n m) / lsum (flat wgt n m) ∧
    lsum (flat (fun y x => wgt y x * (y : ℚ)) n m) / lsum (flat wgt n m) ≤ (n : ℚ) - 1 ∧
    0 ≤ lsum (flat (fun y x => wgt y x * (x : ℚ)) n m) / lsum (flat wgt n m) ∧
    lsum (flat (fun y x => wgt y x * (x : ℚ)) n m) / lsum (flat wgt n m) ≤ (m : ℚ) - 1 := by
  simp only [lsum_eq_sum, flat_eq_map] at *
  have hwp : ∀ p ∈ pairsL n m, 0 ≤ wgt p.1 p.2 := by
    intro p hp
    have := (mem_pairsL n m p).mp hp
    exact hw _ _ this.1.1 this.1.2 this.2.1 this.2.2
  have by_ := weighted_sum_bounds (pairsL n m) (fun p => wgt p.1 p.2) (fun p => (p.1 : ℚ)) 0 ((n : ℚ) - 1) hwp (by
    intro p hp
    have := (mem_pairsL n m p).mp hp
    constructor
    · exact_mod_cast this.1.1
    · have : p.1 ≤ n - 1 := by omega
      exact_mod_cast this)
  have bx := weighted_sum_bounds (pairsL n m) (fun p => wgt p.1 p.2) (fun p => (p.2 : ℚ)) 0 ((m : ℚ) - 1) hwp (by
    intro p hp
    have := (mem_pairsL n m p).mp hp
    constructor
    · exact_mod_cast this.2.1
    · have : p.2 ≤ m - 1 := by omega
      exact_mod_cast this)
  simp only [zero_mul] at by_ bx
  refine ⟨div_nonneg by_.1 (le_of_lt hs), ?_, div_nonneg bx.1 (le_of_lt hs), ?_⟩
  · rw [div_le_iff₀ hs]; exact by_.2
  · rw [div_le_iff₀ hs]; exact bx.2

/-- **the refined position is within `r ≤ 2` px of the integer centre** (per axis): with
`com ∈ [0, 2r]`, `refined = c + com − r ∈ [c − r, c + r]` -/
theorem refine_within_r (c r : ℤ) (com : ℚ) (hr : 0 ≤ r ∧ r ≤ 2) (hcom : 0 ≤ com ∧ com ≤ (2 * r + 1 : ℤ) - 1) :
    |Model.refined_coord c com r - (c : ℚ)| ≤ (r : ℚ) ∧ (r : ℚ) ≤ 2 := by
  rw [C03.refined_formula]
  constructor
  · rw [abs_le]
    have : ((2 * r + 1 : ℤ) : ℚ) = 2 * (r : ℚ) + 1 := by push_cast; ring
    rw [this] at hcom
    constructor <;> linarith [hcom.1, hcom.2]
  · exact_mod_cast hr.2

/-- **no 0/0 in the centre of mass**: if the cut-out contains a value strictly smaller than its
centre value (true whenever `r ≥ 1`, because the centre is the *first* maximum and the cut-out's
first cell precedes it in row-major order), the min-subtracted total is positive -/
theorem com_total_pos (cut : ℤ → ℤ → ℚ) (n m cy cx y0 x0 : ℤ)
    (hc : (0 ≤ cy ∧ cy < n) ∧ (0 ≤ cx ∧ cx < m)) (h0 : (0 ≤ y0 ∧ y0 < n) ∧ (0 ≤ x0 ∧ x0 < m))
    (hlt : cut y0 x0 < cut cy cx) :
    0 < lsum (flat (fun y x => cut y x - minList (flat cut n m)) n m) := by
  rw [lsum_eq_sum, flat_eq_map]
  have hmem : (cy, cx) ∈ pairsL n m := (mem_pairsL n m (cy, cx)).mpr hc
  have hnn : ∀ p ∈ pairsL n m, 0 ≤ cut p.1 p.2 - minList (flat cut n m) := by
    intro p hp
    have := (mem_pairsL n m p).mp hp
    exact cutout_nonneg cut n m p.1 p.2 this.1 this.2
  have hpos : 0 < cut cy cx - minList (flat cut n m) := by
    have h1 : minList (flat cut n m) ≤ cut y0 x0 := by
      apply minList_le
      rw [flat_eq_map]
      exact List.mem_map.mpr ⟨(y0, x0), (mem_pairsL n m (y0, x0)).mpr h0, rfl⟩
    linarith
  have : ∀ (l : List (ℤ × ℤ)), (∀ p ∈ l, 0 ≤ cut p.1 p.2 - minList (flat cut n m)) → (cy, cx) ∈ l →
      0 < (l.map fun p => cut p.1 p.2 - minList (flat cut n m)).sum := by
    intro l
    induction l with
    | nil => intro _ h; cases h
    | cons a t ih =>
      intro hl hm
      simp only [List.map_cons, List.sum_cons]
      have hsum : 0 ≤ (t.map fun p => cut p.1 p.2 - minList (flat cut n m)).sum :=
        List.sum_nonneg (by
          intro x hx
          rw [List.mem_map] at hx
          obtain ⟨p, hp, rfl⟩ := hx
          exact hl p (List.mem_cons_of_mem _ hp))
      rcases List.mem_cons.mp hm with h | h
      · rw [← h]; linarith
      · have := ih (fun p hp => hl p (List.mem_cons_of_mem _ hp)) h
        linarith [hl a List.mem_cons_self]
  exact this _ hnn hmem

/-- the refinement of a first maximum stays within 2 px (composition of the lemmas above on the
model's `refineCenter`) -/
theorem refineCenter_within (corr : ℤ → ℤ → ℚ) (h w cy cx : ℤ) (hy : 0 ≤ cy ∧ cy < h) (hx : 0 ≤ cx ∧ cx < w)
    (hfirst : ∀ y x : ℤ, 0 ≤ y → y < h → 0 ≤ x → x < w → y < cy → corr y x < corr cy cx) :
    |(refineCenter corr h w cy cx Model.refine_radius).1 - (cy : ℚ)| ≤ 2 ∧
    |(refineCenter corr h w cy cx Model.refine_radius).2 - (cx : ℚ)| ≤ 2 := by
  unfold refineCenter
  simp only []
  have hb := C03.refine_cut_in_bounds cy cx h w hy hx
  simp only [] at hb
  set r := Model.refine_r Model.refine_radius cy cx h w with hr
  by_cases hg : Model.refine_guard r = true
  · rw [if_pos hg]
    simp
  · rw [if_neg hg]
    have hgf : Model.refine_guard r = false := by simpa using hg
    obtain ⟨hr0, hr2, hcut⟩ := hb
    obtain ⟨hly, hhy, hlx, hhx, hny, hnx⟩ := hcut hgf
    have hrpos : 1 ≤ r := by
      unfold Model.refine_guard at hgf
      simp only [decide_eq_false_iff_not, not_le] at hgf
      omega
    simp only [hny, hnx]
    set cut : ℤ → ℤ → ℚ := fun y x => corr (Model.cut_lo cy r + y) (Model.cut_lo cx r + x) with hcutdef
    have hlo_y : Model.cut_lo cy r = cy - r := rfl
    have hlo_x : Model.cut_lo cx r = cx - r := rfl
    have hpos := com_total_pos cut (2 * r + 1) (2 * r + 1) r r 0 0
      ⟨⟨by omega, by omega⟩, ⟨by omega, by omega⟩⟩ ⟨⟨by omega, by omega⟩, ⟨by omega, by omega⟩⟩ (by
        simp only [hcutdef, hlo_y, hlo_x]
        have e1 : cy - r + r = cy := by ring
        have e2 : cx - r + r = cx := by ring
        rw [e1, e2, add_zero, add_zero]
        exact hfirst (cy - r) (cx - r) (by rw [← hlo_y]; exact hly) (by omega) (by rw [← hlo_x]; exact hlx) (by omega) (by omega))
    have hull := com_in_hull (fun y x => cut y x - minList (flat cut (2 * r + 1) (2 * r + 1))) (2 * r + 1) (2 * r + 1)
      (fun y x hy0 hy1 hx0 hx1 => cutout_nonneg cut (2 * r + 1) (2 * r + 1) y x ⟨hy0, hy1⟩ ⟨hx0, hx1⟩) hpos
    obtain ⟨h1, h2, h3, h4⟩ := hull
    have c1 := refine_within_r cy r _ ⟨hr0, hr2⟩ ⟨h1, by push_cast at h2 ⊢; linarith⟩
    have c2 := refine_within_r cx r _ ⟨hr0, hr2⟩ ⟨h3, by push_cast at h4 ⊢; linarith⟩
    exact ⟨le_trans c1.1 c1.2, le_trans c2.1 c2.2⟩

/-- **C04 at the model level, no hypotheses on the data: for every correlation map of every size the
refined position returned by the evaluation is within 2 px of the integer centre on both axes**
(the centre is the first maximum ⇒ the min-subtracted cut-out has positive total ⇒ the centre of
mass exists and lies in the cut-out). -/
theorem evaluate_refined_within (corr : ℤ → ℤ → ℚ) (n m : ℕ) (hn : 0 < n) (hm : 0 < m) :
    |(evaluate corr n m).ry - ((evaluate corr n m).cy : ℚ)| ≤ 2 ∧
    |(evaluate corr n m).rx - ((evaluate corr n m).cx : ℚ)| ≤ 2 := by
  obtain ⟨hcy, hcx, hh, _, hfirst⟩ := C03.evaluate_center_is_max corr n m hn hm
  have key := refineCenter_within corr n m (evaluate corr n m).cy (evaluate corr n m).cx hcy hcx (by
    intro y x hy0 hy1 hx0 hx1 hlt
    have := hfirst y.toNat x.toNat (by omega) (by omega) (by
      have ey : ((y.toNat : ℕ) : ℤ) = y := Int.toNat_of_nonneg hy0
      have ex : ((x.toNat : ℕ) : ℤ) = x := Int.toNat_of_nonneg hx0
      push_cast
      rw [ey, ex]
      have h1 : (y + 1) * (m : ℤ) ≤ (evaluate corr n m).cy * (m : ℤ) :=
        Int.mul_le_mul_of_nonneg_right (by omega) (by omega)
      have h2 : (y + 1) * (m : ℤ) = y * m + m := by ring
      omega)
    rw [Int.toNat_of_nonneg hy0, Int.toNat_of_nonneg hx0, hh] at this
    exact this)
  exact key

/-! ### The pipelines composed end to end (model level)

`Model.fastPeak` / `Model.fullPeak` compose the stage models — crop (generated cell logic), log
scaling (generated argument), correlation map (direct circular sum with the generated shift kind),
evaluation kernels, re-anchoring (generated `_shift`) — and `Model.processFrameFast/Full` run them
through the generated block arithmetic.  The theorems below are statements about *these composed
functions* for every frame, mask, peak list, crop size and buffer count. -/

/-- what the crop-based method takes the logarithm of: window value − window minimum + 1 -/
theorem logCrop_def (L : ℚ → ℚ) (crop : ℤ → ℤ → ℚ) (h w y x : ℤ) :
    logCrop L crop h w y x = L (crop y x - minList (flat crop h w) + 1) := by
  unfold logCrop Gen.cropbuf_log_arg Gen.cropbuf_m
  congr 1 <;> ring

/-- what the full-frame method takes the logarithm of: pixel − frame minimum + 1 -/
theorem logFrame_def (L : ℚ → ℚ) (frame : ℤ → ℤ → ℚ) (fy fx y x : ℤ) :
    logFrame L frame fy fx y x = L (frame y x - minList (flat frame fy fx) + 1) := by
  unfold logFrame Gen.log_arg
  rfl

/-- **the correlation map of a window is the circular correlation of the log-scaled window with the
mask whose pixel `c = shape // 2` sits on the evaluated position**: entry `(y, x)` sums
`mask[my, mx] · data[(y + c − my) mod 2c, (x + c − mx) mod 2c]` -/
theorem fastCorr_def (L : ℚ → ℚ) (mask frame : ℤ → ℤ → ℚ) (fy fx c : ℤ) (hc : 0 < c) (p : ℤ × ℤ) (y x : ℤ) :
    fastCorr L mask frame fy fx c p y x
      = lsum ((irange (2 * c)).map fun my => lsum ((irange (2 * c)).map fun mx =>
          mask my mx *
            logCrop L (fun yy xx => window frame fy fx (p.1 - c + yy) (p.2 - c + xx)) (2 * c) (2 * c)
              ((y + c - my) % (2 * c)) ((x + c - mx) % (2 * c)))) := by
  unfold fastCorr corrMap shiftSrc
  have hk : Gen.fast_corr_shift = "fft.ifftshift" := rfl
  simp only [hk, true_or, if_true]
  have h2 : 2 * c / 2 = c := by omega
  have hcrop : (fun yy xx => cropPixel frame fy fx c p.1 p.2 yy xx)
      = (fun yy xx => window frame fy fx (p.1 - c + yy) (p.2 - c + xx)) := by
    funext yy xx; exact C13.cropPixel_eq_window frame fy fx c p.1 p.2 yy xx
  rw [hcrop, h2]
  have hmod : ∀ a m : ℤ, ((a + c) % (2 * c) - m) % (2 * c) = (a + c - m) % (2 * c) := by
    intro a m
    rw [Int.sub_emod, Int.emod_emod_of_dvd _ (dvd_refl _), ← Int.sub_emod]
  simp only [hmod]

/-- **C03 + C04 for one peak of the crop-based method, every input**: the reported centre lies in
`[peak − c, peak + c − 1]²`; the reported height is the value of the window's correlation map at
that centre and no value of the map exceeds it; the refined position is within 2 px of the centre. -/
theorem fastPeak_spec (L : ℚ → ℚ) (mask frame : ℤ → ℤ → ℚ) (fy fx : ℤ) (c : ℕ) (hc : 0 < c) (p : ℤ × ℤ) :
    let e := fastPeak L mask frame fy fx c p
    let corr := fastCorr L mask frame fy fx c p
    (p.1 - c ≤ e.cy ∧ e.cy ≤ p.1 + c - 1) ∧ (p.2 - c ≤ e.cx ∧ e.cx ≤ p.2 + c - 1) ∧
    e.height = corr (e.cy - p.1 + c) (e.cx - p.2 + c) ∧
    (∀ y x : ℤ, 0 ≤ y → y < 2 * c → 0 ≤ x → x < 2 * c → corr y x ≤ e.height) ∧
    |e.ry - (e.cy : ℚ)| ≤ 2 ∧ |e.rx - (e.cx : ℚ)| ≤ 2 := by
  intro e corr
  have hcast : ((2 * c : ℕ) : ℤ) = 2 * (c : ℤ) := by push_cast; ring
  have hpos : 0 < 2 * c := by omega
  obtain ⟨hcy, hcx, hh, hmax, _⟩ := C03.evaluate_center_is_max corr (2 * c) (2 * c) hpos hpos
  obtain ⟨hry, hrx⟩ := evaluate_refined_within corr (2 * c) (2 * c) hpos hpos
  rw [hcast] at hcy hcx hh hmax hry hrx
  have ecy : e.cy = Gen.shift (evaluate corr (2 * (c : ℤ)) (2 * (c : ℤ))).cy p.1 c := rfl
  have ecx : e.cx = Gen.shift (evaluate corr (2 * (c : ℤ)) (2 * (c : ℤ))).cx p.2 c := rfl
  have eh : e.height = (evaluate corr (2 * (c : ℤ)) (2 * (c : ℤ))).height := rfl
  have ery : e.ry = (evaluate corr (2 * (c : ℤ)) (2 * (c : ℤ))).ry + ((Gen.shift 0 p.1 c : ℤ) : ℚ) := rfl
  have erx : e.rx = (evaluate corr (2 * (c : ℤ)) (2 * (c : ℤ))).rx + ((Gen.shift 0 p.2 c : ℤ) : ℚ) := rfl
  unfold Gen.shift at ecy ecx ery erx
  refine ⟨by omega, by omega, ?_, ?_, ?_, ?_⟩
  · rw [eh, hh, ecy, ecx]; congr 1 <;> ring
  · intro y x hy0 hy1 hx0 hx1
    have := hmax y.toNat x.toNat (by omega) (by omega)
    rw [Int.toNat_of_nonneg hy0, Int.toNat_of_nonneg hx0] at this
    rw [eh]; exact this
  · rw [ery, ecy]; push_cast
    have : (evaluate corr (2 * (c : ℤ)) (2 * (c : ℤ))).ry + ((0 : ℚ) + (p.1 : ℚ) - (c : ℚ))
        - (((evaluate corr (2 * (c : ℤ)) (2 * (c : ℤ))).cy : ℚ) + (p.1 : ℚ) - (c : ℚ))
        = (evaluate corr (2 * (c : ℤ)) (2 * (c : ℤ))).ry - ((evaluate corr (2 * (c : ℤ)) (2 * (c : ℤ))).cy : ℚ) := by ring
    rw [this]; exact hry
  · rw [erx, ecx]; push_cast
    have : (evaluate corr (2 * (c : ℤ)) (2 * (c : ℤ))).rx + ((0 : ℚ) + (p.2 : ℚ) - (c : ℚ))
        - (((evaluate corr (2 * (c : ℤ)) (2 * (c : ℤ))).cx : ℚ) + (p.2 : ℚ) - (c : ℚ))
        = (evaluate corr (2 * (c : ℤ)) (2 * (c : ℤ))).rx - ((evaluate corr (2 * (c : ℤ)) (2 * (c : ℤ))).cx : ℚ) := by ring
    rw [this]; exact hrx

/-- **the same for one peak of the full-frame method**: the window is cut out of the frame-sized
correlation map (zero outside the frame), the centre is in the window, the height is the window's
maximum, attained at the centre -/
theorem fullPeak_spec (L : ℚ → ℚ) (mask frame : ℤ → ℤ → ℚ) (fy fx : ℤ) (c : ℕ) (hc : 0 < c) (p : ℤ × ℤ) :
    let e := fullPeak L mask frame fy fx c p
    let win : ℤ → ℤ → ℚ := fun y x => window (fullCorr L mask frame fy fx) fy fx (p.1 - c + y) (p.2 - c + x)
    (p.1 - c ≤ e.cy ∧ e.cy ≤ p.1 + c - 1) ∧ (p.2 - c ≤ e.cx ∧ e.cx ≤ p.2 + c - 1) ∧
    e.height = window (fullCorr L mask frame fy fx) fy fx e.cy e.cx ∧
    (∀ y x : ℤ, 0 ≤ y → y < 2 * c → 0 ≤ x → x < 2 * c → win y x ≤ e.height) ∧
    |e.ry - (e.cy : ℚ)| ≤ 2 ∧ |e.rx - (e.cx : ℚ)| ≤ 2 := by
  intro e win
  have hwin : (fun y x => cropPixel (fullCorr L mask frame fy fx) fy fx c p.1 p.2 y x) = win := by
    funext y x; exact C13.cropPixel_eq_window _ fy fx c p.1 p.2 y x
  have hcast : ((2 * c : ℕ) : ℤ) = 2 * (c : ℤ) := by push_cast; ring
  have hpos : 0 < 2 * c := by omega
  obtain ⟨hcy, hcx, hh, hmax, _⟩ := C03.evaluate_center_is_max win (2 * c) (2 * c) hpos hpos
  obtain ⟨hry, hrx⟩ := evaluate_refined_within win (2 * c) (2 * c) hpos hpos
  rw [hcast] at hcy hcx hh hmax hry hrx
  have ee : e = reanchor (evaluate win (2 * (c : ℤ)) (2 * (c : ℤ))) p.1 p.2 c := by
    show reanchor (evaluate (fun y x => cropPixel (fullCorr L mask frame fy fx) fy fx c p.1 p.2 y x) _ _) _ _ _ = _
    rw [hwin]
  have ecy : e.cy = Gen.shift (evaluate win (2 * (c : ℤ)) (2 * (c : ℤ))).cy p.1 c := by rw [ee]; rfl
  have ecx : e.cx = Gen.shift (evaluate win (2 * (c : ℤ)) (2 * (c : ℤ))).cx p.2 c := by rw [ee]; rfl
  have eh : e.height = (evaluate win (2 * (c : ℤ)) (2 * (c : ℤ))).height := by rw [ee]; rfl
  have ery : e.ry = (evaluate win (2 * (c : ℤ)) (2 * (c : ℤ))).ry + ((Gen.shift 0 p.1 c : ℤ) : ℚ) := by rw [ee]; rfl
  have erx : e.rx = (evaluate win (2 * (c : ℤ)) (2 * (c : ℤ))).rx + ((Gen.shift 0 p.2 c : ℤ) : ℚ) := by rw [ee]; rfl
  unfold Gen.shift at ecy ecx ery erx
  refine ⟨by omega, by omega, ?_, ?_, ?_, ?_⟩
  · rw [eh, hh, ecy, ecx]
    show window _ fy fx _ _ = window _ fy fx _ _
    congr 1 <;> ring
  · intro y x hy0 hy1 hx0 hx1
    have := hmax y.toNat x.toNat (by omega) (by omega)
    rw [Int.toNat_of_nonneg hy0, Int.toNat_of_nonneg hx0] at this
    rw [eh]; exact this
  · rw [ery, ecy]; push_cast
    have : (evaluate win (2 * (c : ℤ)) (2 * (c : ℤ))).ry + ((0 : ℚ) + (p.1 : ℚ) - (c : ℚ))
        - (((evaluate win (2 * (c : ℤ)) (2 * (c : ℤ))).cy : ℚ) + (p.1 : ℚ) - (c : ℚ))
        = (evaluate win (2 * (c : ℤ)) (2 * (c : ℤ))).ry - ((evaluate win (2 * (c : ℤ)) (2 * (c : ℤ))).cy : ℚ) := by ring
    rw [this]; exact hry
  · rw [erx, ecx]; push_cast
    have : (evaluate win (2 * (c : ℤ)) (2 * (c : ℤ))).rx + ((0 : ℚ) + (p.2 : ℚ) - (c : ℚ))
        - (((evaluate win (2 * (c : ℤ)) (2 * (c : ℤ))).cx : ℚ) + (p.2 : ℚ) - (c : ℚ))
        = (evaluate win (2 * (c : ℤ)) (2 * (c : ℤ))).rx - ((evaluate win (2 * (c : ℤ)) (2 * (c : ℤ))).cx : ℚ) := by ring
    rw [this]; exact hrx

/-- **every output entry of a frame is filled with the result for its own peak, for every buffer
count, both pipelines** (composition with the block-loop theorems of C08); entries beyond the peak
list are left as they were -/
theorem process_frame_fills_outputs (L : ℚ → ℚ) (mask frame : ℤ → ℤ → ℚ) (fy fx c : ℤ)
    (peaks : ℤ → ℤ × ℤ) (n b : ℤ) (hn : 0 ≤ n) (hb : 0 < b) (out : ℤ → EvalOut) (i : ℤ) :
    processFrameFast L mask frame fy fx c peaks n b out i
      = (if 0 ≤ i ∧ i < n then fastPeak L mask frame fy fx c (peaks i) else out i) ∧
    processFrameFull L mask frame fy fx c peaks n b out i
      = (if 0 ≤ i ∧ i < n then fullPeak L mask frame fy fx c (peaks i) else out i) :=
  ⟨C08.fast_runBlocks_spec _ peaks n b hn hb out i, C08.full_runBlocks_spec _ peaks n b hn hb out i⟩

/-- **C08 for the composed pipelines**: the result stored for a peak is the same for every buffer
count, and permuting the peak list permutes the results (both pipelines) -/
theorem process_frame_buffer_and_order_irrelevant (L : ℚ → ℚ) (mask frame : ℤ → ℤ → ℚ) (fy fx c : ℤ)
    (peaks : ℤ → ℤ × ℤ) (σ : ℤ → ℤ) (n b b' : ℤ) (hn : 0 ≤ n) (hb : 0 < b) (hb' : 0 < b') (out : ℤ → EvalOut)
    (i : ℤ) (hi : 0 ≤ i ∧ i < n) :
    processFrameFast L mask frame fy fx c peaks n b out i = processFrameFast L mask frame fy fx c peaks n b' out i ∧
    processFrameFull L mask frame fy fx c peaks n b out i = processFrameFull L mask frame fy fx c peaks n b' out i ∧
    processFrameFast L mask frame fy fx c (fun k => peaks (σ k)) n b out i = fastPeak L mask frame fy fx c (peaks (σ i)) ∧
    processFrameFull L mask frame fy fx c (fun k => peaks (σ k)) n b out i = fullPeak L mask frame fy fx c (peaks (σ i)) := by
  have h1 := process_frame_fills_outputs L mask frame fy fx c peaks n b hn hb out i
  have h2 := process_frame_fills_outputs L mask frame fy fx c peaks n b' hn hb' out i
  have h3 := process_frame_fills_outputs L mask frame fy fx c (fun k => peaks (σ k)) n b hn hb out i
  rw [if_pos hi] at h1 h2 h3
  rw [if_pos hi] at h1 h2 h3
  exact ⟨by rw [h1.1, h2.1], by rw [h1.2, h2.2], h3.1, h3.2⟩

/-- non-vacuity: the composed crop-based pipeline evaluated on a concrete 4×4 frame, `c = 1`,
identity in place of the logarithm, 2×2 mask, two peaks (one overlapping the border), buffer of 1 -/
example :
    let frame : ℤ → ℤ → ℚ := fun y x => if y = 1 ∧ x = 2 then 9 else 1
    let mask : ℤ → ℤ → ℚ := fun y x => if y = 1 ∧ x = 1 then 1 else 0
    let peaks : ℤ → ℤ × ℤ := fun i => if i = 0 then (1, 2) else (0, 0)
    let out := processFrameFast id mask frame 4 4 1 peaks 2 1 (fun _ => ⟨0, 0, 0, 0, 0, none⟩)
    ((out 0).cy, (out 0).cx, (out 0).height) = (1, 2, 9) ∧ ((out 1).cy, (out 1).cx) = (0, 0) := by
  decide +kernel

/-- slopes `(height − v)/d` are compared through their squares; squares of slopes are ≥ 0 and the
reported elevation is `max(0, ·)` of the smallest slope, hence never negative -/
theorem elev_nonneg (height v d2 : ℚ) (hd : 0 < d2) : 0 ≤ (height - v) ^ 2 / d2 ∧
    (∀ o : Option ℚ, ∀ v', optMax0 o = some v' → 0 ≤ v') := by
  refine ⟨div_nonneg (sq_nonneg _) (le_of_lt hd), ?_⟩
  intro o v' h
  cases o with
  | none => cases h
  | some u =>
    simp only [optMax0, Option.some.injEq] at h
    rw [← h]; unfold rmax; split_ifs <;> linarith

/-- **the elevation is finite**: a map with at least 4 rows has, for every position inside it, a row
at distance ≥ 1.5 = `r_min` (so the minimum over pixels is taken over a non-empty set) -/
theorem elev_domain_nonempty (h : ℤ) (py : ℚ) (hh : 4 ≤ h) (hp : 0 ≤ py ∧ py ≤ (h : ℚ) - 1) :
    ∃ y : ℤ, (0 ≤ y ∧ y < h) ∧ Model.elev_rmin * Model.elev_rmin ≤ ((y : ℚ) - py) ^ 2 := by
  have hq : (4 : ℚ) ≤ (h : ℚ) := by exact_mod_cast hh
  unfold Model.elev_rmin
  by_cases hlow : py ≤ ((h : ℚ) - 1) / 2
  · refine ⟨h - 1, ⟨by omega, by omega⟩, ?_⟩
    push_cast
    nlinarith
  · refine ⟨0, ⟨le_refl _, by omega⟩, ?_⟩
    push Not at hlow
    push_cast
    nlinarith

/-- **upsampling: every candidate offset `(k − dftshift)/us`, `0 ≤ k < region`, has modulus
≤ 0.75 + 0.5/us** (the refined position moves at most that far from the integer centre) -/
theorem upsample_offset_bound (us k : ℤ) (hus : 1 ≤ us)
    (hk : 0 ≤ k ∧ k < Gen.us_region us) :
    |((k - Gen.us_dftshift (Gen.us_region us) : ℤ) : ℚ) / (us : ℚ)| ≤ 3 / 4 + 1 / (2 * (us : ℚ)) := by
  have husq : (0 : ℚ) < (us : ℚ) := by exact_mod_cast (by omega : (0 : ℤ) < us)
  have hreg_lo : ((us : ℚ) * (3 / 2)) ≤ (Gen.us_region us : ℚ) := by
    unfold Gen.us_region; exact Rat.le_ceil
  have hreg_hi : (Gen.us_region us : ℚ) < (us : ℚ) * (3 / 2) + 1 := by
    unfold Gen.us_region; exact Rat.ceil_lt
  have hregpos : (0 : ℚ) ≤ (Gen.us_region us : ℚ) / 2 := by linarith
  set R := Gen.us_region us with hR
  have hd : Gen.us_dftshift R = (((R : ℤ) : ℚ) / 2).floor := by
    unfold Gen.us_dftshift
    rw [if_neg (by linarith)]
  have hfl_le : (((((R : ℤ) : ℚ) / 2).floor : ℤ) : ℚ) ≤ (R : ℚ) / 2 := Rat.floor_le _
  have hfl_gt : (R : ℚ) / 2 < ((((R : ℤ) : ℚ) / 2).floor : ℚ) + 1 := by
    have := Rat.lt_floor_add_one ((R : ℚ) / 2)
    push_cast at this
    exact this
  rw [hd, abs_le, div_le_iff₀ husq, le_div_iff₀ husq]
  have hkq : (0 : ℚ) ≤ (k : ℚ) ∧ (k : ℚ) ≤ (R : ℚ) - 1 := by
    constructor
    · exact_mod_cast hk.1
    · have : k ≤ R - 1 := by omega
      exact_mod_cast this
  have e : (3 / 4 + 1 / (2 * (us : ℚ))) * (us : ℚ) = 3 / 4 * (us : ℚ) + 1 / 2 := by
    field_simp
  have e' : -(3 / 4 + 1 / (2 * (us : ℚ))) * (us : ℚ) = -(3 / 4 * (us : ℚ) + 1 / 2) := by
    rw [neg_mul, e]
  rw [e, e']
  push_cast
  constructor <;> linarith

/-- kernel index safety is inherited: cropping never reads or writes out of bounds (C13) and the
refinement cut-out stays inside the map (C03.refine_cut_in_bounds) -/
theorem kernels_in_bounds (y x h w : ℤ) (hy : 0 ≤ y ∧ y < h) (hx : 0 ≤ x ∧ x < w) :
    Model.refine_guard (Model.refine_r Model.refine_radius y x h w) = false →
      0 ≤ Model.cut_lo y (Model.refine_r Model.refine_radius y x h w) ∧
      Model.cut_hi y (Model.refine_r Model.refine_radius y x h w) ≤ h ∧
      0 ≤ Model.cut_lo x (Model.refine_r Model.refine_radius y x h w) ∧
      Model.cut_hi x (Model.refine_r Model.refine_radius y x h w) ≤ w := by
  intro hg
  have := (C03.refine_cut_in_bounds y x h w hy hx).2.2 hg
  exact ⟨this.1, this.2.1, this.2.2.1, this.2.2.2.1⟩

/-- **when the elevation is finite.**  In a window with at least 4 rows (crop size ≥ 2), whatever the refined position (inside
the window or not), some pixel is at distance ≥ 1.5 from it: the cone fit has a candidate and the elevation is a finite number -/
theorem elevation_finite_of_four_rows (corr : ℤ → ℤ → ℚ) (h w : ℤ) (hh : 4 ≤ h) (hw : 0 < w) (py px height : ℚ) :
    (elevation2 corr h w py px height).isSome = true := by
  rw [elevation2_eq]
  have hh' : (4 : ℚ) ≤ (h : ℚ) := by exact_mod_cast hh
  have key : ∃ v, v ∈ elevCands corr h w py px height := by
    by_cases hc : ((h : ℚ) - 1) / 2 ≤ py
    · refine ⟨_, (mem_elevCands corr h w py px height _).mpr ⟨0, 0, ⟨le_refl 0, by omega⟩, ⟨le_refl 0, hw⟩, ?_, rfl⟩⟩
      unfold Model.elev_rmin
      have h1 : (3 : ℚ) / 2 ≤ py := by linarith
      push_cast
      nlinarith [sq_nonneg (((0 : ℤ) : ℚ) - px), sq_nonneg (py - 3 / 2)]
    · refine ⟨_, (mem_elevCands corr h w py px height _).mpr ⟨h - 1, 0, ⟨by omega, by omega⟩, ⟨le_refl 0, hw⟩, ?_, rfl⟩⟩
      unfold Model.elev_rmin
      have h1 : (3 : ℚ) / 2 ≤ ((h : ℚ) - 1) - py := by have := not_le.mp hc; linarith
      push_cast
      nlinarith [sq_nonneg (((0 : ℤ) : ℚ) - px), sq_nonneg (((h : ℚ) - 1) - py - 3 / 2)]
  obtain ⟨v, hv⟩ := key
  have hne : elevCands corr h w py px height ≠ [] := fun e => by rw [e] at hv; cases hv
  rw [if_neg hne]; rfl

/-- ... and in a 2×2 window (crop size 1) no pixel is that far from a position inside the window: the elevation is `inf`
(`none`), for every map -/
theorem elevation_infinite_of_2x2 (corr : ℤ → ℤ → ℚ) (py px height : ℚ)
    (hpy : 0 ≤ py ∧ py ≤ 1) (hpx : 0 ≤ px ∧ px ≤ 1) : elevation2 corr 2 2 py px height = none := by
  rw [elevation2_eq]
  have hnil : elevCands corr 2 2 py px height = [] := by
    apply List.eq_nil_iff_forall_not_mem.mpr
    intro v hv
    obtain ⟨y, x, hy, hx, hd, _⟩ := (mem_elevCands corr 2 2 py px height v).mp hv
    unfold Model.elev_rmin at hd
    have hy' : (y : ℚ) = 0 ∨ (y : ℚ) = 1 := by
      have : y = 0 ∨ y = 1 := by omega
      rcases this with h | h <;> simp [h]
    have hx' : (x : ℚ) = 0 ∨ (x : ℚ) = 1 := by
      have : x = 0 ∨ x = 1 := by omega
      rcases this with h | h <;> simp [h]
    rcases hy' with h1 | h1 <;> rcases hx' with h2 | h2 <;> rw [h1, h2] at hd <;> nlinarith [hpy.1, hpy.2, hpx.1, hpx.2]
  rw [if_pos hnil]

end C04
