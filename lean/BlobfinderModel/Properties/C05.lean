import BlobfinderModel.Properties.C17
import BlobfinderModel.Properties.C06
import BlobfinderModel.Model.Fastmatch
import BlobfinderModel.Proofs.Rigid
import BlobfinderModel.Proofs.FastExact
import BlobfinderModel.Proofs.FastNoisy
/-!
# C05 — fast matching keeps inliers, rejects outliers and weak peaks, never raises  (partial)

Proved here (exact arithmetic, every input): shape invariants of a valid match, selection ⇔
(weight ok ∧ squared scaled error < tolerance²), exact lattice points are selected with their true
indices, weak peaks are never selected, the returned lattice is the weighted least-squares fit of
the selected peaks (C06), singular start vectors and too few matches give the invalid match,
translation and (rational) rigid equivariance; the robustness window: one round against any
lattice (`inlier_matched`, `inlier_matched_kappa`, `half_cell_rejected`), both rounds for noise-free
node peaks (`fastmatch_exact_recovery`: exact lattice, exactly the strong node peaks) and both
rounds for noisy peaks (`noisy_inliers_kept`: the first fit is within `ε sqrt(Σw vᵀN⁻¹v)` of the
truth at every node, and every inlier whose bound fits the tolerance is kept with its true indices).
**Not proved**: that *no* outlier is selected in the noisy case beyond `half_cell_rejected` applied to
the fitted lattice, the behaviour of float singularity detection on nearly parallel vectors, and
irrational rotation angles (oracle only).
-/
namespace C05
open Model

/-- the comparison operators of the matcher, regenerated from the source -/
theorem operators (elev mw err tol : ℚ) (n mm : ℤ) :
    (Gen.fm_weight_ok elev mw = true ↔ mw ≤ elev) ∧ (Gen.fm_enough n mm = true ↔ mm ≤ n) ∧
    (Gen.fm_matched err tol = true ↔ err < tol) := by
  unfold Gen.fm_weight_ok Gen.fm_enough Gen.fm_matched
  simp only [decide_eq_true_eq, ge_iff_le]
  trivial

/-- rounding an integer leaves it unchanged -/
theorem round_int (k : ℤ) : roundHalfEven (k : ℚ) = k := by
  unfold roundHalfEven
  simp only [Rat.floor_intCast, sub_self]
  norm_num

/-- a point on an exact lattice node has squared error 0 … -/
theorem err2_exact (a b : V2) (i j : ℤ) : err2 a b ((i : ℚ), (j : ℚ)) = 0 := by
  unfold err2
  simp only [round_int, sub_self, zero_mul, zero_div, add_zero]

/-- … **so noise-free lattice points are matched, with their true indices, from the exact start**
for every positive tolerance and all non-parallel lattice vectors -/
theorem exact_lattice_selected (zero a b : V2) (i j : ℤ) (tol : ℚ) (htol : 0 < tol)
    (hd : det2 a b ≠ 0) :
    let ij := (getIndices zero a b (calcCoord zero a b ((i : ℚ), (j : ℚ)))).getD (0, 0)
    isMatched a b tol ij = true ∧ (roundHalfEven ij.1, roundHalfEven ij.2) = (i, j) := by
  simp only [C17.indices_of_coords zero a b _ hd, Option.getD_some]
  unfold isMatched
  rw [err2_exact]
  simp only [round_int, Bool.and_eq_true, decide_eq_true_eq, and_true]
  exact ⟨le_of_lt htol, by positivity⟩

/-- selection rule of `_match_all`, point by point -/
theorem selection_char (peaks : List Peak) (sel : List Bool) (zero a b : V2) (tol : ℚ)
    (m : List Bool) (idx : List (ℤ × ℤ)) (h : matchAll peaks sel zero a b tol = some (m, idx)) :
    m = (sel.zip (peaks.map fun p => (getIndices zero a b p.pos).getD (0, 0))).map
          fun (s, ij) => s && isMatched a b tol ij := by
  unfold matchAll at h
  split at h
  · exact absurd h (by simp)
  · simp only [Option.some.injEq, Prod.mk.injEq] at h
    exact h.1.symm

/-- only peaks of the working selection can be matched -/
theorem matched_subset (peaks : List Peak) (sel : List Bool) (zero a b : V2) (tol : ℚ)
    (m : List Bool) (idx : List (ℤ × ℤ)) (h : matchAll peaks sel zero a b tol = some (m, idx))
    (k : ℕ) (hk : k < m.length) (hm : m[k] = true) :
    ∃ hs : k < sel.length, sel[k] = true := by
  have hc := selection_char peaks sel zero a b tol m idx h
  subst hc
  simp only [List.length_map, List.length_zip] at hk
  refine ⟨by omega, ?_⟩
  simp only [List.getElem_map, List.getElem_zip, Bool.and_eq_true] at hm
  exact hm.1

/-- equally many indices and selected peaks -/
theorem matched_counts (peaks : List Peak) (sel : List Bool) (zero a b : V2) (tol : ℚ)
    (m : List Bool) (idx : List (ℤ × ℤ)) (h : matchAll peaks sel zero a b tol = some (m, idx))
    (hlen : sel.length = peaks.length) :
    m.length = peaks.length ∧ idx.length = (m.filter id).length := by
  unfold matchAll at h
  split at h
  · exact absurd h (by simp)
  · simp only [Option.some.injEq, Prod.mk.injEq] at h
    obtain ⟨hm, hi⟩ := h
    constructor
    · rw [← hm]; simp [List.length_map, List.length_zip, hlen]
    · rw [← hi, List.length_map]
      have : ∀ (l : List Bool) (r : List V2), l.length = r.length →
          ((l.zip r).filter (·.1)).length = (l.filter id).length := by
        intro l
        induction l with
        | nil => intro r _; simp
        | cons x t ih =>
          intro r hr
          cases r with
          | nil => simp at hr
          | cons y s =>
            simp only [List.zip_cons_cons, List.filter_cons]
            cases x <;> simp [ih s (by simpa using hr)]
      rw [← hm]
      apply this
      simp [List.length_map, List.length_zip, hlen]

/-- parallel / zero start vectors give the invalid match -/
theorem singular_start_invalid (peaks : List Peak) (zero a b : V2) (tol mw : ℚ) (mm : ℤ)
    (hd : det2 a b = 0) : fastmatch peaks zero a b tol mw mm = .invalid := by
  unfold fastmatch matchAll
  simp [hd]

/-- **A valid match has equally many indices and selected peaks, one selector entry per peak, and
every selected peak has elevation ≥ min_weight** (weak peaks are never selected). -/
theorem valid_invariants (peaks : List Peak) (zero a b : V2) (tol mw : ℚ) (mm : ℤ)
    (z2 a2 b2 : V2) (m : List Bool) (idx : List (ℤ × ℤ))
    (h : fastmatch peaks zero a b tol mw mm = .valid z2 a2 b2 m idx) :
    m.length = peaks.length ∧ idx.length = (m.filter id).length ∧
    ∀ k (hk : k < m.length) (hp : k < peaks.length), m[k] = true → mw ≤ (peaks[k]).elev := by
  unfold fastmatch at h
  simp only [] at h
  split at h
  · exact absurd h (by simp)
  · rename_i m1 idx1 h1
    split at h
    · exact absurd h (by simp)
    · split at h
      · split at h <;> exact absurd h (by simp)
      · rename_i z1 a1 b1 hw1
        split at h
        · exact absurd h (by simp)
        · rename_i m2 idx2 h2
          split at h
          · split at h <;> exact absurd h (by simp)
          · simp only [MatchResult.valid.injEq] at h
            obtain ⟨_, _, _, rfl, rfl⟩ := h
            have hlen : (peaks.map fun p => Gen.fm_weight_ok p.elev mw).length = peaks.length := by simp
            have hc := matched_counts peaks _ z1 a1 b1 tol m2 idx2 h2 hlen
            refine ⟨hc.1, hc.2, ?_⟩
            intro k hk hp hmk
            obtain ⟨hs, hsel⟩ := matched_subset peaks _ z1 a1 b1 tol m2 idx2 h2 k hk hmk
            simp only [List.getElem_map] at hsel
            exact ((operators _ _ 0 0 0 0).1).mp hsel

/-- fewer than `min_match` matches in the first round give the invalid match -/
theorem too_few_invalid (peaks : List Peak) (zero a b : V2) (tol mw : ℚ) (mm : ℤ)
    (m1 : List Bool) (idx1 : List (ℤ × ℤ))
    (h1 : matchAll peaks (peaks.map fun p => Gen.fm_weight_ok p.elev mw) zero a b tol = some (m1, idx1))
    (hfew : (idx1.length : ℤ) < mm) : fastmatch peaks zero a b tol mw mm = .invalid := by
  unfold fastmatch
  simp only [h1]
  have : Gen.fm_enough (idx1.length : ℤ) mm = false := by
    unfold Gen.fm_enough
    simp only [decide_eq_false_iff_not, ge_iff_le, not_le]
    exact hfew
  simp [this]

/-- **nothing matched in the first round ⇒ the invalid match, whatever `min_match`** -- also for `min_match ≤ 0` ("accept
every frame"), where the count test lets the empty selection through: the fit of nothing has no solution
(`weightedOptimize … [] = none`) and the outcome is the invalid match, never an error -/
theorem nothing_matched_invalid (peaks : List Peak) (zero a b : V2) (tol mw : ℚ) (mm : ℤ) (m1 : List Bool)
    (h1 : matchAll peaks (peaks.map fun p => Gen.fm_weight_ok p.elev mw) zero a b tol = some (m1, [])) :
    fastmatch peaks zero a b tol mw mm = .invalid := by
  have hw : weightedOptimize peaks m1 [] = none := by
    unfold weightedOptimize obsFor
    simp only [List.zip_nil_right, List.map_nil]
    have : solveNormal (normalOf []) = none := by
      unfold solveNormal
      simp only [normalOf_nil_det, if_true]
    rw [this]
  unfold fastmatch
  simp only [h1, hw, List.length_nil]
  split <;> rfl

/-- non-vacuity: `min_match = 0`, one strong peak half a cell off the lattice, one weak peak on it -/
example : fastmatch [⟨(5, 5), 1⟩, ⟨(10, 0), 1 / 100⟩] (0, 0) (10, 0) (0, 10) 2 (1 / 10) 0 = .invalid := by
  decide +kernel

/-- **The lattice of a valid match is the weighted least-squares fit of its own selected peaks**
(weights = elevations): it satisfies the normal equations in both coordinates, hence minimises
the weighted squared distance by `C06.lsq_optimal`. -/
theorem result_is_wls (peaks : List Peak) (zero a b : V2) (tol mw : ℚ) (mm : ℤ)
    (z2 a2 b2 : V2) (m : List Bool) (idx : List (ℤ × ℤ))
    (h : fastmatch peaks zero a b tol mw mm = .valid z2 a2 b2 m idx) :
    NormalEqs z2.1 a2.1 b2.1 (obsFor peaks m idx (·.1)) ∧
    NormalEqs z2.2 a2.2 b2.2 (obsFor peaks m idx (·.2)) := by
  unfold fastmatch at h
  simp only [] at h
  split at h
  · exact absurd h (by simp)
  · split at h
    · exact absurd h (by simp)
    · split at h
      · split at h <;> exact absurd h (by simp)
      · split at h
        · exact absurd h (by simp)
        · rename_i m2 idx2 h2
          split at h
          · split at h <;> exact absurd h (by simp)
          · rename_i zz aa bb hw
            simp only [MatchResult.valid.injEq] at h
            obtain ⟨rfl, rfl, rfl, rfl, rfl⟩ := h
            unfold weightedOptimize at hw
            split at hw
            · rename_i zy ay by_ zx ax bx hy hx
              simp only [Option.some.injEq, Prod.mk.injEq] at hw
              obtain ⟨rfl, rfl, rfl⟩ := hw
              exact ⟨C06.cramer_solves_normal_eqs _ _ _ _ hy, C06.cramer_solves_normal_eqs _ _ _ _ hx⟩
            · exact absurd hw (by simp)

/-- translating all positions and the zero point leaves the computed indices unchanged -/
theorem translation_invariant_indices (zero a b p t : V2) :
    getIndices (vadd zero t) a b (vadd p t) = getIndices zero a b p := by
  unfold getIndices vadd vsub
  simp only [add_sub_add_right_eq_sub]

/-- **Rigid equivariance of the fast match (model level, exact arithmetic)**: for every rational
orthogonal map `R` (rotations such as the 3-4-5 rotation, reflections) and every translation `t`,
running the match on the moved peaks with the moved start lattice gives the moved result — the same
selector, the same integer indices, zero point `R z + t`, lattice vectors `R a`, `R b`; an invalid
match stays invalid.  Irrational rotation angles are covered by the oracle only. -/
theorem rigid_equivariant (R : Lin) (hR : R.Orthogonal) (t : V2) (peaks : List Peak) (zero a b : V2)
    (tol minWeight : ℚ) (minMatch : ℤ) :
    fastmatch (peaks.map (Peak.move R t)) (R.move t zero) (R.app a) (R.app b) tol minWeight minMatch
      = (fastmatch peaks zero a b tol minWeight minMatch).move R t :=
  fastmatch_move R hR t peaks zero a b tol minWeight minMatch

/-- the selection step alone is invariant (used above; also holds for the second round) -/
theorem match_all_rigid (R : Lin) (hR : R.Orthogonal) (t : V2) (peaks : List Peak) (sel : List Bool)
    (zero a b : V2) (tol : ℚ) :
    matchAll (peaks.map (Peak.move R t)) sel (R.move t zero) (R.app a) (R.app b) tol
      = matchAll peaks sel zero a b tol :=
  matchAll_move R hR t peaks sel zero a b tol

/-- non-vacuity: the 3-4-5 rotation is orthogonal, and it moves a valid match to a valid match -/
example : (⟨3 / 5, -4 / 5, 4 / 5, 3 / 5⟩ : Lin).Orthogonal := by
  unfold Lin.Orthogonal; norm_num

example :
    fastmatch ([⟨(0, 0), 1⟩, ⟨(10, 0), 1⟩, ⟨(0, 10), 1⟩, ⟨(10, 10), 1⟩].map (Peak.move ⟨3 / 5, -4 / 5, 4 / 5, 3 / 5⟩ (7, -2)))
      ((⟨3 / 5, -4 / 5, 4 / 5, 3 / 5⟩ : Lin).move (7, -2) (0, 0)) ((⟨3 / 5, -4 / 5, 4 / 5, 3 / 5⟩ : Lin).app (10, 0))
      ((⟨3 / 5, -4 / 5, 4 / 5, 3 / 5⟩ : Lin).app (0, 10)) 3 (1 / 10) 3
    = .valid (7, -2) (6, 8) (-8, 6) [true, true, true, true] [(0, 0), (1, 0), (0, 1), (1, 1)] := by
  decide +kernel

/-- non-vacuity: four points of an exact square lattice are all matched -/
example : fastmatch [⟨(0, 0), 1⟩, ⟨(10, 0), 1⟩, ⟨(0, 10), 1⟩, ⟨(10, 10), 1⟩] (0, 0) (10, 0) (0, 10) 3 (1 / 10) 3
    = .valid (0, 0) (10, 0) (0, 10) [true, true, true, true] [(0, 0), (1, 0), (0, 1), (1, 1)] := by
  decide +kernel

/-! ### the robustness window, in exact arithmetic

One round of `_match_all` against *any* lattice `(zero, a, b)` with vectors between 60° and 120°
apart (`4 (a·b)² ≤ ‖a‖²‖b‖²`): a peak displaced by `e` from node `(i, j)` of that lattice is selected
with indices `(i, j)` as soon as `‖e‖` is small against the tolerance and the cell; a peak half a
cell away is rejected.  The lattice is the one the round is run against, so `e` contains the noise
of the peak *and* the error of the start parameters at that node
(`(z_true - z) + i (a_true - a) + j (b_true - b)`).
-/

/-- **inliers are kept with their true indices**: `‖e‖ ≤ ε`, `(8/3) ε² < tol²` and
`(16/3) ε² < min(‖a‖², ‖b‖²)` suffice.  For ε = 0.3 px + start error this is far inside the default
tolerance of 3 px and the 20 px cells of the statement. -/
theorem inlier_matched (zero a b e : V2) (i j : ℤ) (tol eps : ℚ) (htol : 0 < tol)
    (hd : det2 a b ≠ 0) (hang : 4 * dot a b ^ 2 ≤ norm2 a * norm2 b)
    (he : norm2 e ≤ eps ^ 2) (ha : 16 / 3 * eps ^ 2 < norm2 a) (hb : 16 / 3 * eps ^ 2 < norm2 b)
    (ht : 8 / 3 * eps ^ 2 < tol ^ 2) :
    let ij := (getIndices zero a b (vadd (calcCoord zero a b ((i : ℚ), (j : ℚ))) e)).getD (0, 0)
    isMatched a b tol ij = true ∧ (roundHalfEven ij.1, roundHalfEven ij.2) = (i, j) := by
  simp only [indices_displaced zero a b e _ _ hd, Option.getD_some]
  have s1 := index_shift_sq_le a b e hd hang
  have s2 := index_shift_sq_le' a b e hd hang
  set di := det2 e b / det2 a b with hdi
  set dj := det2 a e / det2 a b with hdj
  have hna := norm2_nonneg a
  have hnb := norm2_nonneg b
  -- |di| < 1/2 and |dj| < 1/2
  have hnap : 0 < norm2 a := lt_of_le_of_lt (by positivity) ha
  have hnbp : 0 < norm2 b := lt_of_le_of_lt (by positivity) hb
  have hdi2 : di ^ 2 < (1 / 2) ^ 2 := by
    by_contra h
    push Not at h
    have := mul_le_mul_of_nonneg_right h hna
    nlinarith
  have hdj2 : dj ^ 2 < (1 / 2) ^ 2 := by
    by_contra h
    push Not at h
    have := mul_le_mul_of_nonneg_right h hnb
    nlinarith
  have hi : |(i : ℚ) + di - i| < 1 / 2 := by
    rw [add_sub_cancel_left]
    exact abs_lt_of_sq_lt_sq hdi2 (by norm_num)
  have hj : |(j : ℚ) + dj - j| < 1 / 2 := by
    rw [add_sub_cancel_left]
    exact abs_lt_of_sq_lt_sq hdj2 (by norm_num)
  have ri := round_near _ _ hi
  have rj := round_near _ _ hj
  refine ⟨?_, by rw [ri, rj]⟩
  unfold isMatched
  simp only [Bool.and_eq_true, decide_eq_true_eq]
  refine ⟨le_of_lt htol, ?_⟩
  have hle := err2_le_unscaled a b ((i : ℚ) + di, (j : ℚ) + dj)
  simp only [ri, rj, add_sub_cancel_left] at hle
  nlinarith

/-- a peak whose fractional index along `a` is far from every integer is rejected -/
theorem far_not_matched_first (a b ij : V2) (tol : ℚ)
    (h : tol ^ 2 * rmax 1 (rabs ij.1) ≤ (ij.1 - (roundHalfEven ij.1 : ℚ)) ^ 2 * norm2 a) :
    isMatched a b tol ij = false := by
  unfold isMatched
  have m1 := rmax_one_ge (rabs ij.1)
  have h1 := err2_ge_first a b ij
  have : tol ^ 2 ≤ (ij.1 - (roundHalfEven ij.1 : ℚ)) ^ 2 * norm2 a / rmax 1 (rabs ij.1) := by
    rw [le_div_iff₀ (by linarith)]; exact h
  have h2 : ¬ err2 a b ij < tol * tol := by rw [← sq]; linarith
  simp [h2]

theorem far_not_matched_second (a b ij : V2) (tol : ℚ)
    (h : tol ^ 2 * rmax 1 (rabs ij.2) ≤ (ij.2 - (roundHalfEven ij.2 : ℚ)) ^ 2 * norm2 b) :
    isMatched a b tol ij = false := by
  unfold isMatched
  have m1 := rmax_one_ge (rabs ij.2)
  have h1 := err2_ge_second a b ij
  have : tol ^ 2 ≤ (ij.2 - (roundHalfEven ij.2 : ℚ)) ^ 2 * norm2 b / rmax 1 (rabs ij.2) := by
    rw [le_div_iff₀ (by linarith)]; exact h
  have h2 : ¬ err2 a b ij < tol * tol := by rw [← sq]; linarith
  simp [h2]

/-- **half-cell outliers are rejected**: a peak displaced by `e` (`‖e‖ ≤ ε`) from the position
`(i + 1/2, y)` of the lattice the round is run against is not selected when
`tol² · max(1, |index|) ≤ (1/2 - η)² ‖a‖²`, where `η² ‖a‖² = (4/3) ε²` bounds the index shift caused by `e`.
The `max(1, |index|)` is the square-root relaxation of the tolerance at high orders: the statement's
half-cell rejection needs `tol < (1/2 - η) ‖a‖ / sqrt(|index|)`, and the oracle draws its far outliers
accordingly. -/
theorem half_cell_rejected (zero a b e : V2) (i : ℤ) (y tol eta : ℚ)
    (hd : det2 a b ≠ 0) (heta : |det2 e b / det2 a b| ≤ eta) (heta2 : eta ≤ 1 / 2)
    (hfar : tol ^ 2 * rmax 1 (rabs ((i : ℚ) + 1 / 2 + det2 e b / det2 a b)) ≤ (1 / 2 - eta) ^ 2 * norm2 a) :
    isMatched a b tol
      ((getIndices zero a b (vadd (calcCoord zero a b ((i : ℚ) + 1 / 2, y)) e)).getD (0, 0)) = false := by
  simp only [indices_displaced zero a b e _ _ hd, Option.getD_some]
  apply far_not_matched_first
  simp only []
  have hf := half_cell_far i (det2 e b / det2 a b) eta heta
  have hna := norm2_nonneg a
  have h0 : 0 ≤ 1 / 2 - eta := by linarith
  have hsq : (1 / 2 - eta) ^ 2 ≤
      ((i : ℚ) + 1 / 2 + det2 e b / det2 a b - (roundHalfEven ((i : ℚ) + 1 / 2 + det2 e b / det2 a b) : ℚ)) ^ 2 := by
    rw [← sq_abs ((i : ℚ) + 1 / 2 + det2 e b / det2 a b - _)]
    exact pow_le_pow_left₀ h0 hf 2
  calc _ ≤ (1 / 2 - eta) ^ 2 * norm2 a := hfar
    _ ≤ _ := mul_le_mul_of_nonneg_right hsq hna

/-- non-vacuity of the two window theorems: a 20 px square lattice, a peak 0.3 px off node (2, -1) is
kept for tol = 1; a peak exactly half a cell off along `a` at order 3 is rejected for tol = 3 -/
example : isMatched (20, 0) (0, 20) 1
    ((getIndices (50, 50) (20, 0) (0, 20) (vadd (calcCoord (50, 50) (20, 0) (0, 20) (2, -1)) (3 / 10, 0))).getD (0, 0)) = true := by
  decide +kernel
example : isMatched (20, 0) (0, 20) 3
    ((getIndices (50, 50) (20, 0) (0, 20) (vadd (calcCoord (50, 50) (20, 0) (0, 20) (3 + 1 / 2, 1)) (0, 0))).getD (0, 0)) = false := by
  decide +kernel

/-! ### exact recovery, end to end (both rounds and both fits) -/

/-- **Noise-free lattice peaks are recovered exactly from any start that works at all.**
True lattice `(z, a, b)`; `node p = some (i, j)` marks the peaks lying exactly on node `(i, j)`; every other
strong peak is one the true lattice rejects (e.g. a half-cell outlier, `half_cell_rejected`); the start
`(z0, a0, b0)` is arbitrary except that whatever strong peak round one selects is a node peak with its
true indices (`inlier_matched` gives the geometric condition), at least `min_match` of them, of rank 3.
Then the fast match is valid, returns **exactly** the true lattice, selects **exactly** the strong
node peaks (weak peaks and outliers are rejected, node peaks missed by round one are recovered by
round two) and assigns their true indices.  Rank 3 of the final selection follows from rank 3 of
round one (`det_mono_sublist`). -/
theorem fastmatch_exact_recovery (peaks : List Peak) (z a b z0 a0 b0 : V2) (tol mw : ℚ) (mm : ℤ)
    (node : Peak → Option (ℤ × ℤ))
    (hd : det2 a b ≠ 0) (hd0 : det2 a0 b0 ≠ 0) (htol : 0 < tol) (hmw : 0 ≤ mw)
    (hnode : ∀ p ∈ peaks, ∀ i j, node p = some (i, j) → p.pos = calcCoord z a b ((i : ℚ), (j : ℚ)))
    (hout : ∀ p ∈ peaks, node p = none → mw ≤ p.elev → isMatched a b tol (ix z a b p) = false)
    (h1 : ∀ p ∈ peaks, mw ≤ p.elev → isMatched a0 b0 tol (ix z0 a0 b0 p) = true →
      node p = some (rix z0 a0 b0 p))
    (hcount : mm ≤ ((peaks.filter (selBy (fun p => Gen.fm_weight_ok p.elev mw) z0 a0 b0 tol)).length : ℤ))
    (hrank : (normalOf ((peaks.filter (selBy (fun p => Gen.fm_weight_ok p.elev mw) z0 a0 b0 tol)).map
      fun p => ⟨((rix z0 a0 b0 p).1 : ℚ), ((rix z0 a0 b0 p).2 : ℚ), p.elev, 0⟩)).det ≠ 0) :
    fastmatch peaks z0 a0 b0 tol mw mm
      = .valid z a b (peaks.map fun p => Gen.fm_weight_ok p.elev mw && (node p).isSome)
          ((peaks.filter fun p => Gen.fm_weight_ok p.elev mw && (node p).isSome).map
            fun p => (node p).getD (0, 0)) := by
  obtain ⟨hfit1, hmap2, hfil2, hidx2, hfit2, _⟩ :=
    exact_stages peaks z a b z0 a0 b0 tol mw node hd htol hmw hnode hout h1 hrank
  have hen : Gen.fm_enough (((peaks.filter (selBy (fun p => Gen.fm_weight_ok p.elev mw) z0 a0 b0 tol)).map
      (rix z0 a0 b0)).length : ℤ) mm = true := by
    rw [(operators 0 0 0 0 _ _).2.1, List.length_map]; exact hcount
  unfold fastmatch
  simp only []
  rw [matchAll_eq peaks (fun p => Gen.fm_weight_ok p.elev mw) z0 a0 b0 tol hd0]
  simp only [hen, Bool.not_true, Bool.false_eq_true, if_false, hfit1]
  rw [matchAll_eq peaks (fun p => Gen.fm_weight_ok p.elev mw) z a b tol hd, hmap2, hfil2, hidx2]
  simp only [hfit2]

/-- **from the exact start**: every strong node peak is selected, every other peak rejected, the true
lattice is returned (the hypothesis on round one is discharged by `on_node`) -/
theorem fastmatch_noise_free (peaks : List Peak) (z a b : V2) (tol mw : ℚ) (mm : ℤ)
    (node : Peak → Option (ℤ × ℤ))
    (hd : det2 a b ≠ 0) (htol : 0 < tol) (hmw : 0 ≤ mw)
    (hnode : ∀ p ∈ peaks, ∀ i j, node p = some (i, j) → p.pos = calcCoord z a b ((i : ℚ), (j : ℚ)))
    (hout : ∀ p ∈ peaks, node p = none → mw ≤ p.elev → isMatched a b tol (ix z a b p) = false)
    (hcount : mm ≤ ((peaks.filter (selBy (fun p => Gen.fm_weight_ok p.elev mw) z a b tol)).length : ℤ))
    (hrank : (normalOf ((peaks.filter (selBy (fun p => Gen.fm_weight_ok p.elev mw) z a b tol)).map
      fun p => ⟨((rix z a b p).1 : ℚ), ((rix z a b p).2 : ℚ), p.elev, 0⟩)).det ≠ 0) :
    fastmatch peaks z a b tol mw mm
      = .valid z a b (peaks.map fun p => Gen.fm_weight_ok p.elev mw && (node p).isSome)
          ((peaks.filter fun p => Gen.fm_weight_ok p.elev mw && (node p).isSome).map
            fun p => (node p).getD (0, 0)) := by
  apply fastmatch_exact_recovery peaks z a b z a b tol mw mm node hd hd htol hmw hnode hout _ hcount hrank
  intro p hp hw hm
  cases hn : node p with
  | none => rw [hout p hp hn hw] at hm; exact absurd hm (by simp)
  | some ij =>
    obtain ⟨i, j⟩ := ij
    rw [(on_node z a b tol htol hd p i j (hnode p hp i j hn)).2.2]

/-- non-vacuity, run through the model: five strong node peaks of a 10 px square lattice, one weak node
peak, one half-cell outlier; the start is off by (1/2, -1/2) px in the zero point and ±1/5 px in the
vectors.  The result is the exact lattice, the strong node peaks, their true indices. -/
example :
    fastmatch [⟨(0, 0), 1⟩, ⟨(10, 0), 2⟩, ⟨(5, 5), 3⟩, ⟨(0, 10), 1⟩, ⟨(20, 20), 0⟩, ⟨(10, 10), 1⟩, ⟨(20, 10), 2⟩]
      (1 / 2, -1 / 2) (10 + 1 / 5, 0) (0, 10 - 1 / 5) 3 (1 / 10) 3
    = .valid (0, 0) (10, 0) (0, 10) [true, true, false, true, false, true, true]
        [(0, 0), (1, 0), (0, 1), (1, 1), (2, 1)] := by
  decide +kernel

/-! ### noisy peaks: both rounds

Round two runs against the weighted fit of round one.  `C06.noise_propagation` bounds how far that fit
is from the truth at any node in terms of the design of the round-one selection; together with the
one-round window for an arbitrary regular lattice this gives the two-round statement below.
-/

/-- the one-round window for any regular lattice: `κ = ‖a‖²‖b‖²/det(a,b)²` (4/3 at 60°/120°, 1 at 90°),
`E2` a bound on the squared displacement -/
theorem inlier_matched_kappa (zero a b e : V2) (i j : ℤ) (tol kappa E2 : ℚ) (htol : 0 < tol)
    (hd : det2 a b ≠ 0) (hk : norm2 a * norm2 b ≤ kappa * det2 a b ^ 2)
    (he : norm2 e ≤ E2) (hkp : 0 ≤ kappa) (ha : 4 * kappa * E2 < norm2 a) (hb : 4 * kappa * E2 < norm2 b)
    (ht : 2 * kappa * E2 < tol ^ 2) :
    let ij := (getIndices zero a b (vadd (calcCoord zero a b ((i : ℚ), (j : ℚ))) e)).getD (0, 0)
    isMatched a b tol ij = true ∧ (roundHalfEven ij.1, roundHalfEven ij.2) = (i, j) := by
  simp only [indices_displaced zero a b e _ _ hd, Option.getD_some]
  obtain ⟨s1, s2⟩ := index_shift_sq_le_kappa a b e kappa hd hk
  set di := det2 e b / det2 a b with hdi
  set dj := det2 a e / det2 a b with hdj
  have hna := norm2_nonneg a
  have hnb := norm2_nonneg b
  have hke : kappa * norm2 e ≤ kappa * E2 := mul_le_mul_of_nonneg_left he hkp
  have hdi2 : di ^ 2 < (1 / 2) ^ 2 := by
    by_contra h
    push Not at h
    have := mul_le_mul_of_nonneg_right h hna
    nlinarith
  have hdj2 : dj ^ 2 < (1 / 2) ^ 2 := by
    by_contra h
    push Not at h
    have := mul_le_mul_of_nonneg_right h hnb
    nlinarith
  have hi : |(i : ℚ) + di - i| < 1 / 2 := by
    rw [add_sub_cancel_left]
    exact abs_lt_of_sq_lt_sq hdi2 (by norm_num)
  have hj : |(j : ℚ) + dj - j| < 1 / 2 := by
    rw [add_sub_cancel_left]
    exact abs_lt_of_sq_lt_sq hdj2 (by norm_num)
  have ri := round_near _ _ hi
  have rj := round_near _ _ hj
  refine ⟨?_, by rw [ri, rj]⟩
  unfold isMatched
  simp only [Bool.and_eq_true, decide_eq_true_eq]
  refine ⟨le_of_lt htol, ?_⟩
  have hle := err2_le_unscaled a b ((i : ℚ) + di, (j : ℚ) + dj)
  simp only [ri, rj, add_sub_cancel_left] at hle
  nlinarith

/-- **Noisy inliers are kept by the second round, with their true indices.**
Node peaks lie within `ε` (per coordinate) of their nodes of the true lattice `(z, a, b)`; round one, from
any start, selects only node peaks with their true indices; the match is valid.  Then there is a first fit
`(z1, a1, b1)` such that
* the reported selector / indices are exactly the selection of round two against `(z1, a1, b1)`;
* at every node `(i, j)` the fit deviates from the truth, in each coordinate, by `d` with
  `det N · d² ≤ vᵀ adj(N) v · ε² Σw` (`N` = design of the round-one selection);
* every strong node peak whose node error bound `d` and the conditioning `κ` of the fitted lattice satisfy
  `4κ (ε + d)² < tol²` and `8κ (ε + d)² < min(‖a1‖², ‖b1‖²)` **is selected and gets its true indices**. -/
theorem noisy_inliers_kept (peaks : List Peak) (z a b z0 a0 b0 z2 a2 b2 : V2) (tol mw eps : ℚ) (mm : ℤ)
    (m : List Bool) (idx : List (ℤ × ℤ)) (node : Peak → Option (ℤ × ℤ))
    (htol : 0 < tol) (hmw : 0 ≤ mw)
    (hnoise : ∀ p ∈ peaks, ∀ i j, node p = some (i, j) →
      |p.pos.1 - (calcCoord z a b ((i : ℚ), (j : ℚ))).1| ≤ eps ∧
      |p.pos.2 - (calcCoord z a b ((i : ℚ), (j : ℚ))).2| ≤ eps)
    (h1 : ∀ p ∈ peaks, mw ≤ p.elev → isMatched a0 b0 tol (ix z0 a0 b0 p) = true →
      node p = some (rix z0 a0 b0 p))
    (hvalid : fastmatch peaks z0 a0 b0 tol mw mm = .valid z2 a2 b2 m idx) :
    ∃ z1 a1 b1 : V2, det2 a1 b1 ≠ 0 ∧
      m = peaks.map (selBy (fun p => Gen.fm_weight_ok p.elev mw) z1 a1 b1 tol) ∧
      idx = (peaks.filter (selBy (fun p => Gen.fm_weight_ok p.elev mw) z1 a1 b1 tol)).map (rix z1 a1 b1) ∧
      (∀ i j : ℚ,
        (normalOf (designOf (peaks.filter (selBy (fun p => Gen.fm_weight_ok p.elev mw) z0 a0 b0 tol)) (rix z0 a0 b0))).det
            * ((calcCoord z1 a1 b1 (i, j)).1 - (calcCoord z a b (i, j)).1) ^ 2
          ≤ (normalOf (designOf (peaks.filter (selBy (fun p => Gen.fm_weight_ok p.elev mw) z0 a0 b0 tol)) (rix z0 a0 b0))).adjq 1 i j
            * (eps ^ 2 * (normalOf (designOf (peaks.filter (selBy (fun p => Gen.fm_weight_ok p.elev mw) z0 a0 b0 tol)) (rix z0 a0 b0))).s1) ∧
        (normalOf (designOf (peaks.filter (selBy (fun p => Gen.fm_weight_ok p.elev mw) z0 a0 b0 tol)) (rix z0 a0 b0))).det
            * ((calcCoord z1 a1 b1 (i, j)).2 - (calcCoord z a b (i, j)).2) ^ 2
          ≤ (normalOf (designOf (peaks.filter (selBy (fun p => Gen.fm_weight_ok p.elev mw) z0 a0 b0 tol)) (rix z0 a0 b0))).adjq 1 i j
            * (eps ^ 2 * (normalOf (designOf (peaks.filter (selBy (fun p => Gen.fm_weight_ok p.elev mw) z0 a0 b0 tol)) (rix z0 a0 b0))).s1)) ∧
      (∀ p ∈ peaks, ∀ (i j : ℤ) (kappa d : ℚ), node p = some (i, j) → mw ≤ p.elev → 0 ≤ kappa → 0 ≤ d →
        norm2 a1 * norm2 b1 ≤ kappa * det2 a1 b1 ^ 2 →
        (normalOf (designOf (peaks.filter (selBy (fun p => Gen.fm_weight_ok p.elev mw) z0 a0 b0 tol)) (rix z0 a0 b0))).adjq 1 i j
            * (eps ^ 2 * (normalOf (designOf (peaks.filter (selBy (fun p => Gen.fm_weight_ok p.elev mw) z0 a0 b0 tol)) (rix z0 a0 b0))).s1)
          ≤ (normalOf (designOf (peaks.filter (selBy (fun p => Gen.fm_weight_ok p.elev mw) z0 a0 b0 tol)) (rix z0 a0 b0))).det * d ^ 2 →
        4 * kappa * (eps + d) ^ 2 < tol ^ 2 → 8 * kappa * (eps + d) ^ 2 < norm2 a1 → 8 * kappa * (eps + d) ^ 2 < norm2 b1 →
        selBy (fun p => Gen.fm_weight_ok p.elev mw) z1 a1 b1 tol p = true ∧ rix z1 a1 b1 p = (i, j)) := by
  set W : Peak → Bool := fun p => Gen.fm_weight_ok p.elev mw with hWdef
  have hW : ∀ p, W p = true ↔ mw ≤ p.elev := fun p => (operators p.elev mw 0 0 0 0).1
  obtain ⟨z1, a1, b1, _hd0, hfit, hd1, hm, hidx, _⟩ :=
    fastmatch_valid_form peaks z0 a0 b0 tol mw mm z2 a2 b2 m idx hvalid
  set S1 := selBy W z0 a0 b0 tol with hS1
  -- members of the round-one selection
  have hS1mem : ∀ p ∈ peaks.filter S1, p ∈ peaks ∧ mw ≤ p.elev ∧ node p = some (rix z0 a0 b0 p) := by
    intro p hp
    obtain ⟨hpp, hs⟩ := List.mem_filter.mp hp
    rw [hS1] at hs
    unfold selBy at hs
    rw [Bool.and_eq_true] at hs
    have hw := (hW p).mp hs.1
    exact ⟨hpp, hw, h1 p hpp hw hs.2⟩
  have hwn : ∀ p ∈ peaks.filter S1, 0 ≤ p.elev := fun p hp => le_trans hmw (hS1mem p hp).2.1
  have hnn : ∀ p ∈ peaks.filter S1,
      |p.pos.1 - (z.1 + (((rix z0 a0 b0 p).1 : ℤ) : ℚ) * a.1 + (((rix z0 a0 b0 p).2 : ℤ) : ℚ) * b.1)| ≤ eps ∧
      |p.pos.2 - (z.2 + (((rix z0 a0 b0 p).1 : ℤ) : ℚ) * a.2 + (((rix z0 a0 b0 p).2 : ℤ) : ℚ) * b.2)| ≤ eps := by
    intro p hp
    obtain ⟨hpp, _, hn⟩ := hS1mem p hp
    have := hnoise p hpp _ _ hn
    unfold calcCoord vadd smul at this
    simp only [] at this
    have e : ∀ q r s t u : ℚ, q + (r * s + t * u) = q + r * s + t * u := by intros; ring
    rw [e, e] at this
    exact this
  have herr := fit_error_at_node peaks S1 (rix z0 a0 b0) z a b z1 a1 b1 eps hfit hwn hnn
  -- the design has rank 3 because the fit exists
  have hdetne : (normalOf (designOf (peaks.filter S1) (rix z0 a0 b0))).det ≠ 0 := by
    unfold weightedOptimize at hfit
    rw [obsFor_eq, obsFor_eq] at hfit
    split at hfit
    · rename_i zy ay by_ zx ax bx hy hx
      unfold solveNormal at hy
      simp only [] at hy
      split at hy
      · exact absurd hy (by simp)
      · rename_i hne
        unfold designOf
        rw [det_indep_t (peaks.filter S1) (fun p => ((rix z0 a0 b0 p).1 : ℚ)) (fun p => ((rix z0 a0 b0 p).2 : ℚ))
          (fun p => p.elev) (fun _ => 0) (fun p => p.pos.1)]
        exact hne
    · exact absurd hfit (by simp)
  have hdetpos : 0 < (normalOf (designOf (peaks.filter S1) (rix z0 a0 b0))).det := by
    apply lt_of_le_of_ne _ (Ne.symm hdetne)
    apply det_nonneg
    intro o ho
    unfold designOf at ho
    obtain ⟨p, hp, rfl⟩ := List.mem_map.mp ho
    exact hwn p hp
  refine ⟨z1, a1, b1, hd1, hm, hidx, herr, ?_⟩
  intro p hp i j kappa d hn hw hkp hd hk hbound ht ha hb
  obtain ⟨e1, e2⟩ := herr (i : ℚ) (j : ℚ)
  -- |fit node - true node| ≤ d per coordinate
  have abs_le_d : ∀ x : ℚ,
      (normalOf (designOf (peaks.filter S1) (rix z0 a0 b0))).det * x ^ 2
        ≤ (normalOf (designOf (peaks.filter S1) (rix z0 a0 b0))).adjq 1 i j
          * (eps ^ 2 * (normalOf (designOf (peaks.filter S1) (rix z0 a0 b0))).s1) → |x| ≤ d := by
    intro x hx
    have h2 : (normalOf (designOf (peaks.filter S1) (rix z0 a0 b0))).det * x ^ 2
        ≤ (normalOf (designOf (peaks.filter S1) (rix z0 a0 b0))).det * d ^ 2 := le_trans hx hbound
    have h3 : x ^ 2 ≤ d ^ 2 := le_of_mul_le_mul_left h2 hdetpos
    exact abs_le_of_sq_le_sq' h3 hd |> abs_le.mpr
  have hd1c := abs_le_d _ e1
  have hd2c := abs_le_d _ e2
  obtain ⟨hn1, hn2⟩ := hnoise p hp i j hn
  -- displacement of the peak from the fitted node
  set f := calcCoord z1 a1 b1 ((i : ℚ), (j : ℚ)) with hf
  set t := calcCoord z a b ((i : ℚ), (j : ℚ)) with ht'
  set e : V2 := (p.pos.1 - f.1, p.pos.2 - f.2) with he
  have hpos : p.pos = vadd f e := by
    unfold vadd
    rw [he]
    apply Prod.ext <;> simp
  have hE : norm2 e ≤ 2 * (eps + d) ^ 2 := by
    have c1 : |e.1| ≤ eps + d := by
      have : e.1 = (p.pos.1 - t.1) - (f.1 - t.1) := by rw [he]; ring
      rw [this]
      calc |(p.pos.1 - t.1) - (f.1 - t.1)| ≤ |p.pos.1 - t.1| + |f.1 - t.1| := abs_sub _ _
        _ ≤ eps + d := add_le_add hn1 hd1c
    have c2 : |e.2| ≤ eps + d := by
      have : e.2 = (p.pos.2 - t.2) - (f.2 - t.2) := by rw [he]; ring
      rw [this]
      calc |(p.pos.2 - t.2) - (f.2 - t.2)| ≤ |p.pos.2 - t.2| + |f.2 - t.2| := abs_sub _ _
        _ ≤ eps + d := add_le_add hn2 hd2c
    have q1 : e.1 ^ 2 ≤ (eps + d) ^ 2 := by rw [← sq_abs e.1]; exact pow_le_pow_left₀ (abs_nonneg _) c1 2
    have q2 : e.2 ^ 2 ≤ (eps + d) ^ 2 := by rw [← sq_abs e.2]; exact pow_le_pow_left₀ (abs_nonneg _) c2 2
    unfold norm2
    nlinarith
  have key := inlier_matched_kappa z1 a1 b1 e i j tol kappa (2 * (eps + d) ^ 2) htol hd1 hk hE hkp
    (by linarith) (by linarith) (by linarith)
  simp only [] at key
  rw [← hf, ← hpos] at key
  constructor
  · unfold selBy
    rw [Bool.and_eq_true]
    exact ⟨(hW p).mpr hw, key.1⟩
  · exact key.2

/-- non-vacuity of `noisy_inliers_kept`, evaluated in the kernel: five node peaks of a 10 px square lattice
with ±1/10 px noise (weights 1, 2, 1, 1, 1), tolerance 1 px.  The match is valid, the first fit is
`(0, -1/20), (201/20, -1/40), (-1/20, 1213/120)`; the design has `det N = 24`, and for the node (2, 1)
`vᵀ adj(N) v · ε² Σw = 1.02 ≤ 24 · (1/4)²`, so `d = 1/4`; the fitted lattice has `κ ≤ 101/100`, and
`4κ(ε + d)² = 0.495 < tol²`, `8κ(ε + d)² = 0.99 < ‖a1‖²`: every numeric hypothesis of the last clause holds. -/
example :
    let peaks : List Peak := [⟨(1 / 10, 0), 1⟩, ⟨(10, -1 / 10), 2⟩, ⟨(-1 / 10, 10), 1⟩, ⟨(10, 10 + 1 / 10), 1⟩,
      ⟨(20 + 1 / 10, 10), 1⟩]
    let W : Peak → Bool := fun p => Gen.fm_weight_ok p.elev (1 / 10)
    let N := normalOf (designOf (peaks.filter (selBy W (0, 0) (10, 0) (0, 10) 1)) (rix (0, 0) (10, 0) (0, 10)))
    fastmatch peaks (0, 0) (10, 0) (0, 10) 1 (1 / 10) 3
        = .valid (0, -1 / 20) (201 / 20, -1 / 40) (-1 / 20, 1213 / 120) [true, true, true, true, true]
            [(0, 0), (1, 0), (0, 1), (1, 1), (2, 1)] ∧
    (∀ p ∈ peaks,
      |p.pos.1 - (calcCoord (0, 0) (10, 0) (0, 10) (((rix (0, 0) (10, 0) (0, 10) p).1 : ℚ), ((rix (0, 0) (10, 0) (0, 10) p).2 : ℚ))).1| ≤ 1 / 10 ∧
      |p.pos.2 - (calcCoord (0, 0) (10, 0) (0, 10) (((rix (0, 0) (10, 0) (0, 10) p).1 : ℚ), ((rix (0, 0) (10, 0) (0, 10) p).2 : ℚ))).2| ≤ 1 / 10) ∧
    N.det = 24 ∧ N.adjq 1 2 1 * ((1 / 10) ^ 2 * N.s1) ≤ N.det * (1 / 4) ^ 2 ∧
    norm2 (201 / 20, -1 / 40) * norm2 (-1 / 20, 1213 / 120)
      ≤ 101 / 100 * det2 (201 / 20, -1 / 40) (-1 / 20, 1213 / 120) ^ 2 ∧
    4 * (101 / 100 : ℚ) * (1 / 10 + 1 / 4) ^ 2 < 1 ^ 2 ∧
    8 * (101 / 100 : ℚ) * (1 / 10 + 1 / 4) ^ 2 < norm2 (201 / 20, -1 / 40) ∧
    8 * (101 / 100 : ℚ) * (1 / 10 + 1 / 4) ^ 2 < norm2 (-1 / 20, 1213 / 120) := by
  decide +kernel

/-! ### noisy peaks: outliers are rejected by the second round, and the selection is exactly the inliers -/

/-- half-cell rejection along the second index -/
theorem half_cell_rejected_second (zero a b e : V2) (j : ℤ) (x tol eta : ℚ)
    (hd : det2 a b ≠ 0) (heta : |det2 a e / det2 a b| ≤ eta) (heta2 : eta ≤ 1 / 2)
    (hfar : tol ^ 2 * rmax 1 (rabs ((j : ℚ) + 1 / 2 + det2 a e / det2 a b)) ≤ (1 / 2 - eta) ^ 2 * norm2 b) :
    isMatched a b tol
      ((getIndices zero a b (vadd (calcCoord zero a b (x, (j : ℚ) + 1 / 2)) e)).getD (0, 0)) = false := by
  simp only [indices_displaced zero a b e _ _ hd, Option.getD_some]
  apply far_not_matched_second
  simp only []
  have hf := half_cell_far j (det2 a e / det2 a b) eta heta
  have hnb := norm2_nonneg b
  have h0 : 0 ≤ 1 / 2 - eta := by linarith
  have hsq : (1 / 2 - eta) ^ 2 ≤
      ((j : ℚ) + 1 / 2 + det2 a e / det2 a b - (roundHalfEven ((j : ℚ) + 1 / 2 + det2 a e / det2 a b) : ℚ)) ^ 2 := by
    rw [← sq_abs ((j : ℚ) + 1 / 2 + det2 a e / det2 a b - _)]
    exact pow_le_pow_left₀ h0 hf 2
  calc _ ≤ (1 / 2 - eta) ^ 2 * norm2 b := hfar
    _ ≤ _ := mul_le_mul_of_nonneg_right hsq hnb

theorem norm2_pos_of_det (a b : V2) (hd : det2 a b ≠ 0) : 0 < norm2 a ∧ 0 < norm2 b := by
  have hpos : 0 < det2 a b ^ 2 := by positivity
  have h := det2_sq_le a b
  have ha := norm2_nonneg a
  have hb := norm2_nonneg b
  constructor
  · rcases lt_or_eq_of_le ha with h1 | h1
    · exact h1
    · rw [← h1, zero_mul] at h; linarith
  · rcases lt_or_eq_of_le hb with h1 | h1
    · exact h1
    · rw [← h1, mul_zero] at h; linarith

/-- **half-cell outliers are rejected by any regular lattice they are displaced from by a bounded amount**
(`κ = ‖a‖²‖b‖²/det²`, `E2 ≥ ‖e‖²`, `η² ‖a‖² ≥ κ E2`): first index -/
theorem half_cell_rejected_kappa (zero a b e : V2) (i : ℤ) (y tol kappa E2 eta : ℚ)
    (hd : det2 a b ≠ 0) (hk : norm2 a * norm2 b ≤ kappa * det2 a b ^ 2) (he : norm2 e ≤ E2) (hkp : 0 ≤ kappa)
    (heta0 : 0 ≤ eta) (heta2 : eta ≤ 1 / 2) (heta : kappa * E2 ≤ eta ^ 2 * norm2 a)
    (hfar : tol ^ 2 * max 1 (|(i : ℚ) + 1 / 2| + eta) ≤ (1 / 2 - eta) ^ 2 * norm2 a) :
    isMatched a b tol
      ((getIndices zero a b (vadd (calcCoord zero a b ((i : ℚ) + 1 / 2, y)) e)).getD (0, 0)) = false := by
  obtain ⟨s1, _⟩ := index_shift_sq_le_kappa a b e kappa hd hk
  obtain ⟨hna, _⟩ := norm2_pos_of_det a b hd
  have hke : kappa * norm2 e ≤ kappa * E2 := mul_le_mul_of_nonneg_left he hkp
  have hsq : (det2 e b / det2 a b) ^ 2 ≤ eta ^ 2 := by
    have : (det2 e b / det2 a b) ^ 2 * norm2 a ≤ eta ^ 2 * norm2 a := by linarith
    exact le_of_mul_le_mul_right this hna
  have habs : |det2 e b / det2 a b| ≤ eta := abs_le_of_sq_le_sq' hsq heta0 |> abs_le.mpr
  apply half_cell_rejected zero a b e i y tol eta hd habs heta2
  have hr := rmax_rabs_le ((i : ℚ) + 1 / 2 + det2 e b / det2 a b) ((i : ℚ) + 1 / 2) eta (by
    rw [add_sub_cancel_left]; exact habs)
  have ht : 0 ≤ tol ^ 2 := sq_nonneg _
  calc _ ≤ tol ^ 2 * max 1 (|(i : ℚ) + 1 / 2| + eta) := mul_le_mul_of_nonneg_left hr ht
    _ ≤ _ := hfar

/-- … and second index -/
theorem half_cell_rejected_second_kappa (zero a b e : V2) (j : ℤ) (x tol kappa E2 eta : ℚ)
    (hd : det2 a b ≠ 0) (hk : norm2 a * norm2 b ≤ kappa * det2 a b ^ 2) (he : norm2 e ≤ E2) (hkp : 0 ≤ kappa)
    (heta0 : 0 ≤ eta) (heta2 : eta ≤ 1 / 2) (heta : kappa * E2 ≤ eta ^ 2 * norm2 b)
    (hfar : tol ^ 2 * max 1 (|(j : ℚ) + 1 / 2| + eta) ≤ (1 / 2 - eta) ^ 2 * norm2 b) :
    isMatched a b tol
      ((getIndices zero a b (vadd (calcCoord zero a b (x, (j : ℚ) + 1 / 2)) e)).getD (0, 0)) = false := by
  obtain ⟨_, s2⟩ := index_shift_sq_le_kappa a b e kappa hd hk
  obtain ⟨_, hnb⟩ := norm2_pos_of_det a b hd
  have hke : kappa * norm2 e ≤ kappa * E2 := mul_le_mul_of_nonneg_left he hkp
  have hsq : (det2 a e / det2 a b) ^ 2 ≤ eta ^ 2 := by
    have : (det2 a e / det2 a b) ^ 2 * norm2 b ≤ eta ^ 2 * norm2 b := by linarith
    exact le_of_mul_le_mul_right this hnb
  have habs : |det2 a e / det2 a b| ≤ eta := abs_le_of_sq_le_sq' hsq heta0 |> abs_le.mpr
  apply half_cell_rejected_second zero a b e j x tol eta hd habs heta2
  have hr := rmax_rabs_le ((j : ℚ) + 1 / 2 + det2 a e / det2 a b) ((j : ℚ) + 1 / 2) eta (by
    rw [add_sub_cancel_left]; exact habs)
  have ht : 0 ≤ tol ^ 2 := sq_nonneg _
  calc _ ≤ tol ^ 2 * max 1 (|(j : ℚ) + 1 / 2| + eta) := mul_le_mul_of_nonneg_left hr ht
    _ ≤ _ := hfar

/-- a position within `r` (per coordinate) of node `(i, j)` of a regular lattice is matched with `(i, j)` -/
theorem near_node_kept (z1 a1 b1 pos : V2) (i j : ℤ) (tol kappa r : ℚ) (htol : 0 < tol)
    (hd1 : det2 a1 b1 ≠ 0) (hk : norm2 a1 * norm2 b1 ≤ kappa * det2 a1 b1 ^ 2) (hkp : 0 ≤ kappa)
    (h1 : |pos.1 - (calcCoord z1 a1 b1 ((i : ℚ), (j : ℚ))).1| ≤ r)
    (h2 : |pos.2 - (calcCoord z1 a1 b1 ((i : ℚ), (j : ℚ))).2| ≤ r)
    (ht : 4 * kappa * r ^ 2 < tol ^ 2) (ha : 8 * kappa * r ^ 2 < norm2 a1) (hb : 8 * kappa * r ^ 2 < norm2 b1) :
    isMatched a1 b1 tol ((getIndices z1 a1 b1 pos).getD (0, 0)) = true ∧
      (roundHalfEven ((getIndices z1 a1 b1 pos).getD (0, 0)).1, roundHalfEven ((getIndices z1 a1 b1 pos).getD (0, 0)).2) = (i, j) := by
  set f := calcCoord z1 a1 b1 ((i : ℚ), (j : ℚ)) with hf
  set e : V2 := (pos.1 - f.1, pos.2 - f.2) with he
  have hpos : pos = vadd f e := by
    unfold vadd; rw [he]; apply Prod.ext <;> simp
  have hE : norm2 e ≤ 2 * r ^ 2 := by
    have q1 : e.1 ^ 2 ≤ r ^ 2 := by rw [← sq_abs e.1]; exact pow_le_pow_left₀ (abs_nonneg _) h1 2
    have q2 : e.2 ^ 2 ≤ r ^ 2 := by rw [← sq_abs e.2]; exact pow_le_pow_left₀ (abs_nonneg _) h2 2
    unfold norm2; nlinarith
  have key := inlier_matched_kappa z1 a1 b1 e i j tol kappa (2 * r ^ 2) htol hd1 hk hE hkp
    (by linarith) (by linarith) (by linarith)
  simp only [] at key
  rw [← hf, ← hpos] at key
  exact key

/-- a position within `r` (per coordinate) of the half-cell position `(i + 1/2, y)` of a regular lattice is rejected -/
theorem near_half_cell_rejected (z1 a1 b1 pos : V2) (i : ℤ) (y tol kappa r eta : ℚ)
    (hd1 : det2 a1 b1 ≠ 0) (hk : norm2 a1 * norm2 b1 ≤ kappa * det2 a1 b1 ^ 2) (hkp : 0 ≤ kappa)
    (h1 : |pos.1 - (calcCoord z1 a1 b1 ((i : ℚ) + 1 / 2, y)).1| ≤ r)
    (h2 : |pos.2 - (calcCoord z1 a1 b1 ((i : ℚ) + 1 / 2, y)).2| ≤ r)
    (heta0 : 0 ≤ eta) (heta2 : eta ≤ 1 / 2) (heta : 2 * kappa * r ^ 2 ≤ eta ^ 2 * norm2 a1)
    (hfar : tol ^ 2 * max 1 (|(i : ℚ) + 1 / 2| + eta) ≤ (1 / 2 - eta) ^ 2 * norm2 a1) :
    isMatched a1 b1 tol ((getIndices z1 a1 b1 pos).getD (0, 0)) = false := by
  set f := calcCoord z1 a1 b1 ((i : ℚ) + 1 / 2, y) with hf
  set e : V2 := (pos.1 - f.1, pos.2 - f.2) with he
  have hpos : pos = vadd f e := by
    unfold vadd; rw [he]; apply Prod.ext <;> simp
  have hE : norm2 e ≤ 2 * r ^ 2 := by
    have q1 : e.1 ^ 2 ≤ r ^ 2 := by rw [← sq_abs e.1]; exact pow_le_pow_left₀ (abs_nonneg _) h1 2
    have q2 : e.2 ^ 2 ≤ r ^ 2 := by rw [← sq_abs e.2]; exact pow_le_pow_left₀ (abs_nonneg _) h2 2
    unfold norm2; nlinarith
  have key := half_cell_rejected_kappa z1 a1 b1 e i y tol kappa (2 * r ^ 2) eta hd1 hk hE hkp heta0 heta2
    (by linarith) hfar
  rw [← hf, ← hpos] at key
  exact key

/-- … half a cell off along the second index -/
theorem near_half_cell_rejected_second (z1 a1 b1 pos : V2) (j : ℤ) (x tol kappa r eta : ℚ)
    (hd1 : det2 a1 b1 ≠ 0) (hk : norm2 a1 * norm2 b1 ≤ kappa * det2 a1 b1 ^ 2) (hkp : 0 ≤ kappa)
    (h1 : |pos.1 - (calcCoord z1 a1 b1 (x, (j : ℚ) + 1 / 2)).1| ≤ r)
    (h2 : |pos.2 - (calcCoord z1 a1 b1 (x, (j : ℚ) + 1 / 2)).2| ≤ r)
    (heta0 : 0 ≤ eta) (heta2 : eta ≤ 1 / 2) (heta : 2 * kappa * r ^ 2 ≤ eta ^ 2 * norm2 b1)
    (hfar : tol ^ 2 * max 1 (|(j : ℚ) + 1 / 2| + eta) ≤ (1 / 2 - eta) ^ 2 * norm2 b1) :
    isMatched a1 b1 tol ((getIndices z1 a1 b1 pos).getD (0, 0)) = false := by
  set f := calcCoord z1 a1 b1 (x, (j : ℚ) + 1 / 2) with hf
  set e : V2 := (pos.1 - f.1, pos.2 - f.2) with he
  have hpos : pos = vadd f e := by
    unfold vadd; rw [he]; apply Prod.ext <;> simp
  have hE : norm2 e ≤ 2 * r ^ 2 := by
    have q1 : e.1 ^ 2 ≤ r ^ 2 := by rw [← sq_abs e.1]; exact pow_le_pow_left₀ (abs_nonneg _) h1 2
    have q2 : e.2 ^ 2 ≤ r ^ 2 := by rw [← sq_abs e.2]; exact pow_le_pow_left₀ (abs_nonneg _) h2 2
    unfold norm2; nlinarith
  have key := half_cell_rejected_second_kappa z1 a1 b1 e j x tol kappa (2 * r ^ 2) eta hd1 hk hE hkp heta0 heta2
    (by linarith) hfar
  rw [← hf, ← hpos] at key
  exact key

/-- the first fit of a valid match on noisy node peaks and its error at every position (setup of `noisy_selection`) -/
theorem noisy_first_fit (peaks : List Peak) (z a b z0 a0 b0 z2 a2 b2 : V2) (tol mw eps : ℚ) (mm : ℤ)
    (m : List Bool) (idx : List (ℤ × ℤ)) (node : Peak → Option (ℤ × ℤ))
    (_htol : 0 < tol) (hmw : 0 ≤ mw)
    (hnoise : ∀ p ∈ peaks, ∀ i j, node p = some (i, j) →
      |p.pos.1 - (calcCoord z a b ((i : ℚ), (j : ℚ))).1| ≤ eps ∧
      |p.pos.2 - (calcCoord z a b ((i : ℚ), (j : ℚ))).2| ≤ eps)
    (h1 : ∀ p ∈ peaks, mw ≤ p.elev → isMatched a0 b0 tol (ix z0 a0 b0 p) = true →
      node p = some (rix z0 a0 b0 p))
    (hvalid : fastmatch peaks z0 a0 b0 tol mw mm = .valid z2 a2 b2 m idx) :
    ∃ z1 a1 b1 : V2, det2 a1 b1 ≠ 0 ∧
      m = peaks.map (selBy (fun p => Gen.fm_weight_ok p.elev mw) z1 a1 b1 tol) ∧
      idx = (peaks.filter (selBy (fun p => Gen.fm_weight_ok p.elev mw) z1 a1 b1 tol)).map (rix z1 a1 b1) ∧
      0 < (normalOf (designOf (peaks.filter (selBy (fun p => Gen.fm_weight_ok p.elev mw) z0 a0 b0 tol)) (rix z0 a0 b0))).det ∧
      (∀ i j : ℚ,
        (normalOf (designOf (peaks.filter (selBy (fun p => Gen.fm_weight_ok p.elev mw) z0 a0 b0 tol)) (rix z0 a0 b0))).det
            * ((calcCoord z1 a1 b1 (i, j)).1 - (calcCoord z a b (i, j)).1) ^ 2
          ≤ (normalOf (designOf (peaks.filter (selBy (fun p => Gen.fm_weight_ok p.elev mw) z0 a0 b0 tol)) (rix z0 a0 b0))).adjq 1 i j * (eps ^ 2 * (normalOf (designOf (peaks.filter (selBy (fun p => Gen.fm_weight_ok p.elev mw) z0 a0 b0 tol)) (rix z0 a0 b0))).s1) ∧
        (normalOf (designOf (peaks.filter (selBy (fun p => Gen.fm_weight_ok p.elev mw) z0 a0 b0 tol)) (rix z0 a0 b0))).det
            * ((calcCoord z1 a1 b1 (i, j)).2 - (calcCoord z a b (i, j)).2) ^ 2
          ≤ (normalOf (designOf (peaks.filter (selBy (fun p => Gen.fm_weight_ok p.elev mw) z0 a0 b0 tol)) (rix z0 a0 b0))).adjq 1 i j * (eps ^ 2 * (normalOf (designOf (peaks.filter (selBy (fun p => Gen.fm_weight_ok p.elev mw) z0 a0 b0 tol)) (rix z0 a0 b0))).s1)) := by
  set W : Peak → Bool := fun p => Gen.fm_weight_ok p.elev mw with hWdef
  have hW : ∀ p, W p = true ↔ mw ≤ p.elev := fun p => (operators p.elev mw 0 0 0 0).1
  obtain ⟨z1, a1, b1, _hd0, hfit, hd1, hm, hidx, _⟩ :=
    fastmatch_valid_form peaks z0 a0 b0 tol mw mm z2 a2 b2 m idx hvalid
  set S1 := selBy W z0 a0 b0 tol with hS1
  -- members of the round-one selection
  have hS1mem : ∀ p ∈ peaks.filter S1, p ∈ peaks ∧ mw ≤ p.elev ∧ node p = some (rix z0 a0 b0 p) := by
    intro p hp
    obtain ⟨hpp, hs⟩ := List.mem_filter.mp hp
    rw [hS1] at hs
    unfold selBy at hs
    rw [Bool.and_eq_true] at hs
    have hw := (hW p).mp hs.1
    exact ⟨hpp, hw, h1 p hpp hw hs.2⟩
  have hwn : ∀ p ∈ peaks.filter S1, 0 ≤ p.elev := fun p hp => le_trans hmw (hS1mem p hp).2.1
  have hnn : ∀ p ∈ peaks.filter S1,
      |p.pos.1 - (z.1 + (((rix z0 a0 b0 p).1 : ℤ) : ℚ) * a.1 + (((rix z0 a0 b0 p).2 : ℤ) : ℚ) * b.1)| ≤ eps ∧
      |p.pos.2 - (z.2 + (((rix z0 a0 b0 p).1 : ℤ) : ℚ) * a.2 + (((rix z0 a0 b0 p).2 : ℤ) : ℚ) * b.2)| ≤ eps := by
    intro p hp
    obtain ⟨hpp, _, hn⟩ := hS1mem p hp
    have := hnoise p hpp _ _ hn
    unfold calcCoord vadd smul at this
    simp only [] at this
    have e : ∀ q r s t u : ℚ, q + (r * s + t * u) = q + r * s + t * u := by intros; ring
    rw [e, e] at this
    exact this
  have herr := fit_error_at_node peaks S1 (rix z0 a0 b0) z a b z1 a1 b1 eps hfit hwn hnn
  -- the design has rank 3 because the fit exists
  have hdetne : (normalOf (designOf (peaks.filter S1) (rix z0 a0 b0))).det ≠ 0 := by
    unfold weightedOptimize at hfit
    rw [obsFor_eq, obsFor_eq] at hfit
    split at hfit
    · rename_i zy ay by_ zx ax bx hy hx
      unfold solveNormal at hy
      simp only [] at hy
      split at hy
      · exact absurd hy (by simp)
      · rename_i hne
        unfold designOf
        rw [det_indep_t (peaks.filter S1) (fun p => ((rix z0 a0 b0 p).1 : ℚ)) (fun p => ((rix z0 a0 b0 p).2 : ℚ))
          (fun p => p.elev) (fun _ => 0) (fun p => p.pos.1)]
        exact hne
    · exact absurd hfit (by simp)
  have hdetpos : 0 < (normalOf (designOf (peaks.filter S1) (rix z0 a0 b0))).det := by
    apply lt_of_le_of_ne _ (Ne.symm hdetne)
    apply det_nonneg
    intro o ho
    unfold designOf at ho
    obtain ⟨p, hp, rfl⟩ := List.mem_map.mp ho
    exact hwn p hp
  exact ⟨z1, a1, b1, hd1, hm, hidx, hdetpos, herr⟩

/-- **Noisy peaks, both rounds: which peaks the final selection contains.**  Setting of `noisy_inliers_kept`
(node peaks within `ε` per coordinate of their nodes, round one selects only node peaks with their true indices,
the match is valid).  With the first fit `(z1, a1, b1)`, its conditioning `κ`, and for each position a bound `d` on
the fit error there (`vᵀ adj(N) v ε² Σw ≤ det N · d²`, `C06.noise_propagation`):
* a strong node peak with `4κ(ε+d)² < tol²`, `8κ(ε+d)² < min(‖a1‖², ‖b1‖²)` **is selected** with its true indices;
* a peak within `ε` of a position half a cell off along `a` (`(i + 1/2, y)`, any `y`) with
  `2κ(ε+d)² ≤ η²‖a1‖²`, `η ≤ 1/2`, `tol² max(1, |i + 1/2| + η) ≤ (1/2 - η)²‖a1‖²` **is not selected**; likewise along `b`;
* weak peaks are never selected (`valid_invariants`).
When every peak falls in one of these classes the selection is exactly the set of strong inliers. -/
theorem noisy_selection (peaks : List Peak) (z a b z0 a0 b0 z2 a2 b2 : V2) (tol mw eps : ℚ) (mm : ℤ)
    (m : List Bool) (idx : List (ℤ × ℤ)) (node : Peak → Option (ℤ × ℤ))
    (htol : 0 < tol) (hmw : 0 ≤ mw)
    (hnoise : ∀ p ∈ peaks, ∀ i j, node p = some (i, j) →
      |p.pos.1 - (calcCoord z a b ((i : ℚ), (j : ℚ))).1| ≤ eps ∧
      |p.pos.2 - (calcCoord z a b ((i : ℚ), (j : ℚ))).2| ≤ eps)
    (h1 : ∀ p ∈ peaks, mw ≤ p.elev → isMatched a0 b0 tol (ix z0 a0 b0 p) = true →
      node p = some (rix z0 a0 b0 p))
    (hvalid : fastmatch peaks z0 a0 b0 tol mw mm = .valid z2 a2 b2 m idx) :
    ∃ z1 a1 b1 : V2, det2 a1 b1 ≠ 0 ∧
      m = peaks.map (selBy (fun p => Gen.fm_weight_ok p.elev mw) z1 a1 b1 tol) ∧
      (∀ p ∈ peaks, ∀ (i j : ℤ) (kappa d : ℚ), node p = some (i, j) → mw ≤ p.elev → 0 ≤ kappa → 0 ≤ d →
        norm2 a1 * norm2 b1 ≤ kappa * det2 a1 b1 ^ 2 →
        (normalOf (designOf (peaks.filter (selBy (fun p => Gen.fm_weight_ok p.elev mw) z0 a0 b0 tol)) (rix z0 a0 b0))).adjq 1 i j * (eps ^ 2 * (normalOf (designOf (peaks.filter (selBy (fun p => Gen.fm_weight_ok p.elev mw) z0 a0 b0 tol)) (rix z0 a0 b0))).s1) ≤ (normalOf (designOf (peaks.filter (selBy (fun p => Gen.fm_weight_ok p.elev mw) z0 a0 b0 tol)) (rix z0 a0 b0))).det * d ^ 2 →
        4 * kappa * (eps + d) ^ 2 < tol ^ 2 → 8 * kappa * (eps + d) ^ 2 < norm2 a1 → 8 * kappa * (eps + d) ^ 2 < norm2 b1 →
        selBy (fun p => Gen.fm_weight_ok p.elev mw) z1 a1 b1 tol p = true ∧ rix z1 a1 b1 p = (i, j)) ∧
      (∀ p ∈ peaks, ∀ (i : ℤ) (y kappa d eta : ℚ),
        |p.pos.1 - (calcCoord z a b ((i : ℚ) + 1 / 2, y)).1| ≤ eps → |p.pos.2 - (calcCoord z a b ((i : ℚ) + 1 / 2, y)).2| ≤ eps →
        0 ≤ kappa → 0 ≤ d → norm2 a1 * norm2 b1 ≤ kappa * det2 a1 b1 ^ 2 →
        (normalOf (designOf (peaks.filter (selBy (fun p => Gen.fm_weight_ok p.elev mw) z0 a0 b0 tol)) (rix z0 a0 b0))).adjq 1 ((i : ℚ) + 1 / 2) y * (eps ^ 2 * (normalOf (designOf (peaks.filter (selBy (fun p => Gen.fm_weight_ok p.elev mw) z0 a0 b0 tol)) (rix z0 a0 b0))).s1) ≤ (normalOf (designOf (peaks.filter (selBy (fun p => Gen.fm_weight_ok p.elev mw) z0 a0 b0 tol)) (rix z0 a0 b0))).det * d ^ 2 →
        0 ≤ eta → eta ≤ 1 / 2 → 2 * kappa * (eps + d) ^ 2 ≤ eta ^ 2 * norm2 a1 →
        tol ^ 2 * max 1 (|(i : ℚ) + 1 / 2| + eta) ≤ (1 / 2 - eta) ^ 2 * norm2 a1 →
        selBy (fun p => Gen.fm_weight_ok p.elev mw) z1 a1 b1 tol p = false) ∧
      (∀ p ∈ peaks, ∀ (j : ℤ) (x kappa d eta : ℚ),
        |p.pos.1 - (calcCoord z a b (x, (j : ℚ) + 1 / 2)).1| ≤ eps → |p.pos.2 - (calcCoord z a b (x, (j : ℚ) + 1 / 2)).2| ≤ eps →
        0 ≤ kappa → 0 ≤ d → norm2 a1 * norm2 b1 ≤ kappa * det2 a1 b1 ^ 2 →
        (normalOf (designOf (peaks.filter (selBy (fun p => Gen.fm_weight_ok p.elev mw) z0 a0 b0 tol)) (rix z0 a0 b0))).adjq 1 x ((j : ℚ) + 1 / 2) * (eps ^ 2 * (normalOf (designOf (peaks.filter (selBy (fun p => Gen.fm_weight_ok p.elev mw) z0 a0 b0 tol)) (rix z0 a0 b0))).s1) ≤ (normalOf (designOf (peaks.filter (selBy (fun p => Gen.fm_weight_ok p.elev mw) z0 a0 b0 tol)) (rix z0 a0 b0))).det * d ^ 2 →
        0 ≤ eta → eta ≤ 1 / 2 → 2 * kappa * (eps + d) ^ 2 ≤ eta ^ 2 * norm2 b1 →
        tol ^ 2 * max 1 (|(j : ℚ) + 1 / 2| + eta) ≤ (1 / 2 - eta) ^ 2 * norm2 b1 →
        selBy (fun p => Gen.fm_weight_ok p.elev mw) z1 a1 b1 tol p = false) := by
  obtain ⟨z1, a1, b1, hd1, hm, _, hdetpos, herr⟩ :=
    noisy_first_fit peaks z a b z0 a0 b0 z2 a2 b2 tol mw eps mm m idx node htol hmw hnoise h1 hvalid
  have hW : ∀ p : Peak, Gen.fm_weight_ok p.elev mw = true ↔ mw ≤ p.elev := fun p => (operators p.elev mw 0 0 0 0).1
  -- from the determinant form of the bound to |x| ≤ d
  have abs_le_d : ∀ (R d x : ℚ), 0 ≤ d →
      (normalOf (designOf (peaks.filter (selBy (fun p => Gen.fm_weight_ok p.elev mw) z0 a0 b0 tol)) (rix z0 a0 b0))).det * x ^ 2 ≤ R → R ≤ (normalOf (designOf (peaks.filter (selBy (fun p => Gen.fm_weight_ok p.elev mw) z0 a0 b0 tol)) (rix z0 a0 b0))).det * d ^ 2 → |x| ≤ d := by
    intro R d x hd hx hR
    have h3 : x ^ 2 ≤ d ^ 2 := le_of_mul_le_mul_left (le_trans hx hR) hdetpos
    exact abs_le_of_sq_le_sq' h3 hd |> abs_le.mpr
  -- triangle inequality per coordinate
  have tri : ∀ (u t f r1 r2 : ℚ), |u - t| ≤ r1 → |f - t| ≤ r2 → |u - f| ≤ r1 + r2 := by
    intro u t f r1 r2 h1' h2'
    have : u - f = (u - t) - (f - t) := by ring
    rw [this]
    exact le_trans (abs_sub _ _) (add_le_add h1' h2')
  refine ⟨z1, a1, b1, hd1, hm, ?_, ?_, ?_⟩
  · intro p hp i j kappa d hn hw hkp hd hk hbound ht ha hb
    obtain ⟨e1, e2⟩ := herr (i : ℚ) (j : ℚ)
    obtain ⟨hn1, hn2⟩ := hnoise p hp i j hn
    have k := near_node_kept z1 a1 b1 p.pos i j tol kappa (eps + d) htol hd1 hk hkp
      (tri _ _ _ _ _ hn1 (abs_le_d _ d _ hd e1 hbound)) (tri _ _ _ _ _ hn2 (abs_le_d _ d _ hd e2 hbound)) ht ha hb
    constructor
    · unfold selBy
      rw [Bool.and_eq_true]
      exact ⟨(hW p).mpr hw, k.1⟩
    · exact k.2
  · intro p _ i y kappa d eta hn1 hn2 hkp hd hk hbound he0 he2 heta hfar
    obtain ⟨e1, e2⟩ := herr ((i : ℚ) + 1 / 2) y
    have k := near_half_cell_rejected z1 a1 b1 p.pos i y tol kappa (eps + d) eta hd1 hk hkp
      (tri _ _ _ _ _ hn1 (abs_le_d _ d _ hd e1 hbound)) (tri _ _ _ _ _ hn2 (abs_le_d _ d _ hd e2 hbound)) he0 he2 heta hfar
    unfold selBy
    unfold ix
    rw [k, Bool.and_false]
  · intro p _ j x kappa d eta hn1 hn2 hkp hd hk hbound he0 he2 heta hfar
    obtain ⟨e1, e2⟩ := herr x ((j : ℚ) + 1 / 2)
    have k := near_half_cell_rejected_second z1 a1 b1 p.pos j x tol kappa (eps + d) eta hd1 hk hkp
      (tri _ _ _ _ _ hn1 (abs_le_d _ d _ hd e1 hbound)) (tri _ _ _ _ _ hn2 (abs_le_d _ d _ hd e2 hbound)) he0 he2 heta hfar
    unfold selBy
    unfold ix
    rw [k, Bool.and_false]

end C05
