import BlobfinderModel.Properties.C17
import BlobfinderModel.Properties.C06
import BlobfinderModel.Model.Fastmatch
import BlobfinderModel.Proofs.Rigid
/-!
# C05 — fast matching keeps inliers, rejects outliers and weak peaks, never raises  (partial)

Proved here (exact arithmetic, every input): shape invariants of a valid match, selection ⇔
(weight ok ∧ squared scaled error < tolerance²), exact lattice points are selected with their true
indices, weak peaks are never selected, the returned lattice is the weighted least-squares fit of
the selected peaks (C06), singular start vectors and too few matches give the invalid match,
translation equivariance of the index computation.
**Not proved** (oracle only): the quantitative robustness window of the statement (start within
≈1 px / 0.2 px, inliers within 0.3 px kept, half-cell outliers rejected) and the behaviour of
float singularity detection on nearly parallel vectors; rotation equivariance.
-/
namespace C05
open Model

/-- the comparison operators of the matcher, regenerated from the source -/
theorem operators (elev mw err tol : ℚ) (n mm : ℤ) :
    (Gen.fm_weight_ok elev mw = true ↔ mw ≤ elev) ∧ (Gen.fm_enough n mm = true ↔ mm ≤ n) ∧
    (Gen.fm_matched err tol = true ↔ err < tol) := by
  unfold Gen.fm_weight_ok Gen.fm_enough Gen.fm_matched
  simp only [decide_eq_true_eq, ge_iff_le]
  trivial

/-- rounding an integer leaves it unchanged -/
theorem round_int (k : ℤ) : roundHalfEven (k : ℚ) = k := by
  unfold roundHalfEven
  simp only [Rat.floor_intCast, sub_self]
  norm_num

/-- a point on an exact lattice node has squared error 0 … -/
theorem err2_exact (a b : V2) (i j : ℤ) : err2 a b ((i : ℚ), (j : ℚ)) = 0 := by
  unfold err2
  simp only [round_int, sub_self, zero_mul, zero_div, add_zero]

/-- … **so noise-free lattice points are matched, with their true indices, from the exact start**
for every positive tolerance and all non-parallel lattice vectors -/
theorem exact_lattice_selected (zero a b : V2) (i j : ℤ) (tol : ℚ) (htol : 0 < tol)
    (hd : det2 a b ≠ 0) :
    let ij := (getIndices zero a b (calcCoord zero a b ((i : ℚ), (j : ℚ)))).getD (0, 0)
    isMatched a b tol ij = true ∧ (roundHalfEven ij.1, roundHalfEven ij.2) = (i, j) := by
  simp only [C17.indices_of_coords zero a b _ hd, Option.getD_some]
  unfold isMatched
  rw [err2_exact]
  simp only [round_int, Bool.and_eq_true, decide_eq_true_eq, and_true]
  exact ⟨le_of_lt htol, by positivity⟩

/-- selection rule of `_match_all`, point by point -/
theorem selection_char (peaks : List Peak) (sel : List Bool) (zero a b : V2) (tol : ℚ)
    (m : List Bool) (idx : List (ℤ × ℤ)) (h : matchAll peaks sel zero a b tol = some (m, idx)) :
    m = (sel.zip (peaks.map fun p => (getIndices zero a b p.pos).getD (0, 0))).map
          fun (s, ij) => s && isMatched a b tol ij := by
  unfold matchAll at h
  split at h
  · exact absurd h (by simp)
  · simp only [Option.some.injEq, Prod.mk.injEq] at h
    exact h.1.symm

/-- only peaks of the working selection can be matched -/
theorem matched_subset (peaks : List Peak) (sel : List Bool) (zero a b : V2) (tol : ℚ)
    (m : List Bool) (idx : List (ℤ × ℤ)) (h : matchAll peaks sel zero a b tol = some (m, idx))
    (k : ℕ) (hk : k < m.length) (hm : m[k] = true) :
    ∃ hs : k < sel.length, sel[k] = true := by
  have hc := selection_char peaks sel zero a b tol m idx h
  subst hc
  simp only [List.length_map, List.length_zip] at hk
  refine ⟨by omega, ?_⟩
  simp only [List.getElem_map, List.getElem_zip, Bool.and_eq_true] at hm
  exact hm.1

/-- equally many indices and selected peaks -/
theorem matched_counts (peaks : List Peak) (sel : List Bool) (zero a b : V2) (tol : ℚ)
    (m : List Bool) (idx : List (ℤ × ℤ)) (h : matchAll peaks sel zero a b tol = some (m, idx))
    (hlen : sel.length = peaks.length) :
    m.length = peaks.length ∧ idx.length = (m.filter id).length := by
  unfold matchAll at h
  split at h
  · exact absurd h (by simp)
  · simp only [Option.some.injEq, Prod.mk.injEq] at h
    obtain ⟨hm, hi⟩ := h
    constructor
    · rw [← hm]; simp [List.length_map, List.length_zip, hlen]
    · rw [← hi, List.length_map]
      have : ∀ (l : List Bool) (r : List V2), l.length = r.length →
          ((l.zip r).filter (·.1)).length = (l.filter id).length := by
        intro l
        induction l with
        | nil => intro r _; simp
        | cons x t ih =>
          intro r hr
          cases r with
          | nil => simp at hr
          | cons y s =>
            simp only [List.zip_cons_cons, List.filter_cons]
            cases x <;> simp [ih s (by simpa using hr)]
      rw [← hm]
      apply this
      simp [List.length_map, List.length_zip, hlen]

/-- parallel / zero start vectors give the invalid match -/
theorem singular_start_invalid (peaks : List Peak) (zero a b : V2) (tol mw : ℚ) (mm : ℤ)
    (hd : det2 a b = 0) : fastmatch peaks zero a b tol mw mm = .invalid := by
  unfold fastmatch matchAll
  simp [hd]

/-- **A valid match has equally many indices and selected peaks, one selector entry per peak, and
every selected peak has elevation ≥ min_weight** (weak peaks are never selected). -/
theorem valid_invariants (peaks : List Peak) (zero a b : V2) (tol mw : ℚ) (mm : ℤ)
    (z2 a2 b2 : V2) (m : List Bool) (idx : List (ℤ × ℤ))
    (h : fastmatch peaks zero a b tol mw mm = .valid z2 a2 b2 m idx) :
    m.length = peaks.length ∧ idx.length = (m.filter id).length ∧
    ∀ k (hk : k < m.length) (hp : k < peaks.length), m[k] = true → mw ≤ (peaks[k]).elev := by
  unfold fastmatch at h
  simp only [] at h
  split at h
  · exact absurd h (by simp)
  · rename_i m1 idx1 h1
    split at h
    · exact absurd h (by simp)
    · split at h
      · exact absurd h (by simp)
      · rename_i z1 a1 b1 hw1
        split at h
        · exact absurd h (by simp)
        · rename_i m2 idx2 h2
          split at h
          · split at h <;> exact absurd h (by simp)
          · simp only [MatchResult.valid.injEq] at h
            obtain ⟨_, _, _, rfl, rfl⟩ := h
            have hlen : (peaks.map fun p => Gen.fm_weight_ok p.elev mw).length = peaks.length := by simp
            have hc := matched_counts peaks _ z1 a1 b1 tol m2 idx2 h2 hlen
            refine ⟨hc.1, hc.2, ?_⟩
            intro k hk hp hmk
            obtain ⟨hs, hsel⟩ := matched_subset peaks _ z1 a1 b1 tol m2 idx2 h2 k hk hmk
            simp only [List.getElem_map] at hsel
            exact ((operators _ _ 0 0 0 0).1).mp hsel

/-- fewer than `min_match` matches in the first round give the invalid match -/
theorem too_few_invalid (peaks : List Peak) (zero a b : V2) (tol mw : ℚ) (mm : ℤ)
    (m1 : List Bool) (idx1 : List (ℤ × ℤ))
    (h1 : matchAll peaks (peaks.map fun p => Gen.fm_weight_ok p.elev mw) zero a b tol = some (m1, idx1))
    (hfew : (idx1.length : ℤ) < mm) : fastmatch peaks zero a b tol mw mm = .invalid := by
  unfold fastmatch
  simp only [h1]
  have : Gen.fm_enough (idx1.length : ℤ) mm = false := by
    unfold Gen.fm_enough
    simp only [decide_eq_false_iff_not, ge_iff_le, not_le]
    exact hfew
  simp [this]

/-- **The lattice of a valid match is the weighted least-squares fit of its own selected peaks**
(weights = elevations): it satisfies the normal equations in both coordinates, hence minimises
the weighted squared distance by `C06.lsq_optimal`. -/
theorem result_is_wls (peaks : List Peak) (zero a b : V2) (tol mw : ℚ) (mm : ℤ)
    (z2 a2 b2 : V2) (m : List Bool) (idx : List (ℤ × ℤ))
    (h : fastmatch peaks zero a b tol mw mm = .valid z2 a2 b2 m idx) :
    NormalEqs z2.1 a2.1 b2.1 (obsFor peaks m idx (·.1)) ∧
    NormalEqs z2.2 a2.2 b2.2 (obsFor peaks m idx (·.2)) := by
  unfold fastmatch at h
  simp only [] at h
  split at h
  · exact absurd h (by simp)
  · split at h
    · exact absurd h (by simp)
    · split at h
      · exact absurd h (by simp)
      · split at h
        · exact absurd h (by simp)
        · rename_i m2 idx2 h2
          split at h
          · split at h <;> exact absurd h (by simp)
          · rename_i zz aa bb hw
            simp only [MatchResult.valid.injEq] at h
            obtain ⟨rfl, rfl, rfl, rfl, rfl⟩ := h
            unfold weightedOptimize at hw
            split at hw
            · rename_i zy ay by_ zx ax bx hy hx
              simp only [Option.some.injEq, Prod.mk.injEq] at hw
              obtain ⟨rfl, rfl, rfl⟩ := hw
              exact ⟨C06.cramer_solves_normal_eqs _ _ _ _ hy, C06.cramer_solves_normal_eqs _ _ _ _ hx⟩
            · exact absurd hw (by simp)

/-- translating all positions and the zero point leaves the computed indices unchanged -/
theorem translation_invariant_indices (zero a b p t : V2) :
    getIndices (vadd zero t) a b (vadd p t) = getIndices zero a b p := by
  unfold getIndices vadd vsub
  simp only [add_sub_add_right_eq_sub]

/-- **Rigid equivariance of the fast match (model level, exact arithmetic)**: for every rational
orthogonal map `R` (rotations such as the 3-4-5 rotation, reflections) and every translation `t`,
running the match on the moved peaks with the moved start lattice gives the moved result — the same
selector, the same integer indices, zero point `R z + t`, lattice vectors `R a`, `R b`; an invalid
match stays invalid.  Irrational rotation angles are covered by the oracle only. -/
theorem rigid_equivariant (R : Lin) (hR : R.Orthogonal) (t : V2) (peaks : List Peak) (zero a b : V2)
    (tol minWeight : ℚ) (minMatch : ℤ) :
    fastmatch (peaks.map (Peak.move R t)) (R.move t zero) (R.app a) (R.app b) tol minWeight minMatch
      = (fastmatch peaks zero a b tol minWeight minMatch).move R t :=
  fastmatch_move R hR t peaks zero a b tol minWeight minMatch

/-- the selection step alone is invariant (used above; also holds for the second round) -/
theorem match_all_rigid (R : Lin) (hR : R.Orthogonal) (t : V2) (peaks : List Peak) (sel : List Bool)
    (zero a b : V2) (tol : ℚ) :
    matchAll (peaks.map (Peak.move R t)) sel (R.move t zero) (R.app a) (R.app b) tol
      = matchAll peaks sel zero a b tol :=
  matchAll_move R hR t peaks sel zero a b tol

/-- non-vacuity: the 3-4-5 rotation is orthogonal, and it moves a valid match to a valid match -/
example : (⟨3 / 5, -4 / 5, 4 / 5, 3 / 5⟩ : Lin).Orthogonal := by
  unfold Lin.Orthogonal; norm_num

example :
    fastmatch ([⟨(0, 0), 1⟩, ⟨(10, 0), 1⟩, ⟨(0, 10), 1⟩, ⟨(10, 10), 1⟩].map (Peak.move ⟨3 / 5, -4 / 5, 4 / 5, 3 / 5⟩ (7, -2)))
      ((⟨3 / 5, -4 / 5, 4 / 5, 3 / 5⟩ : Lin).move (7, -2) (0, 0)) ((⟨3 / 5, -4 / 5, 4 / 5, 3 / 5⟩ : Lin).app (10, 0))
      ((⟨3 / 5, -4 / 5, 4 / 5, 3 / 5⟩ : Lin).app (0, 10)) 3 (1 / 10) 3
    = .valid (7, -2) (6, 8) (-8, 6) [true, true, true, true] [(0, 0), (1, 0), (0, 1), (1, 1)] := by
  decide +kernel

/-- non-vacuity: four points of an exact square lattice are all matched -/
example : fastmatch [⟨(0, 0), 1⟩, ⟨(10, 0), 1⟩, ⟨(0, 10), 1⟩, ⟨(10, 10), 1⟩] (0, 0) (10, 0) (0, 10) 3 (1 / 10) 3
    = .valid (0, 0) (10, 0) (0, 10) [true, true, true, true] [(0, 0), (1, 0), (0, 1), (1, 1)] := by
  decide +kernel

end C05
