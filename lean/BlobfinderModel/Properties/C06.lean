import BlobfinderModel.Proofs.Lattice
import BlobfinderModel.Proofs.Noise
/-!
# C06 — lattice fits are the weighted least-squares optimum and affine-covariant

One coordinate at a time (the objective is separable in y and x): observations `(i, j, w, t)`,
parameters `(z, α, β)` = that coordinate of `(zero, a, b)`, objective
`wss = Σ w (t - (z + i α + j β))²`.  The implementation's `lstsq` call is assumed (A-LA) to
return a solution of the normal equations; the model's executable solver is Cramer's rule.
-/
namespace C06
open Model

/-- The model's solver returns a solution of the normal equations whenever the weighted design
has rank 3 (`det ≠ 0`). -/
theorem cramer_solves_normal_eqs (l : List Obs) (z al be : ℚ)
    (h : solveNormal (normalOf l) = some (z, al, be)) : NormalEqs z al be l := by
  unfold solveNormal at h
  simp only [] at h
  split at h
  · exact absurd h (by simp)
  · rename_i hd
    simp only [Option.some.injEq, Prod.mk.injEq] at h
    obtain ⟨hz, ha, hb⟩ := h
    have hs := resid_sums z al be l
    unfold NormalEqs
    simp only [lsum_eq_sum]
    rw [hs.1, hs.2.1, hs.2.2]
    generalize normalOf l = n at *
    unfold Normal.det det3 at *
    rw [div_eq_iff hd] at hz ha hb
    set D := n.s1 * (n.sii * n.sjj - n.sij * n.sij) - n.si * (n.si * n.sjj - n.sij * n.sj) +
        n.sj * (n.si * n.sij - n.sii * n.sj) with hD
    have e1 : D * (n.st - z * n.s1 - al * n.si - be * n.sj) = 0 := by
      linear_combination (n.s1) * hz + (n.si) * ha + (n.sj) * hb
    have e2 : D * (n.sit - z * n.si - al * n.sii - be * n.sij) = 0 := by
      linear_combination (n.si) * hz + (n.sii) * ha + (n.sij) * hb
    have e3 : D * (n.sjt - z * n.sj - al * n.sij - be * n.sjj) = 0 := by
      linear_combination (n.sj) * hz + (n.sij) * ha + (n.sjj) * hb
    exact ⟨(mul_eq_zero.mp e1).resolve_left hd, (mul_eq_zero.mp e2).resolve_left hd,
      (mul_eq_zero.mp e3).resolve_left hd⟩

/-- **Any solution of the normal equations is a global minimiser of the weighted sum of squared
distances**, for all non-negative weights (integer or fractional indices alike). -/
theorem lsq_optimal (l : List Obs) (hw : ∀ o ∈ l, 0 ≤ o.w) (z al be : ℚ)
    (hN : NormalEqs z al be l) (z' al' be' : ℚ) :
    wss z al be l ≤ wss z' al' be' l := by
  unfold wss
  simp only [lsum_eq_sum]
  have e := wss_expand z al be (z' - z) (al' - al) (be' - be) l
  have ez : z + (z' - z) = z' := by ring
  have ea : al + (al' - al) = al' := by ring
  have eb : be + (be' - be) = be' := by ring
  rw [ez, ea, eb] at e
  unfold NormalEqs at hN
  simp only [lsum_eq_sum] at hN
  rw [e, hN.1, hN.2.1, hN.2.2]
  have := sum_weighted_sq_nonneg l hw (fun o => (z' - z) + o.i * (al' - al) + o.j * (be' - be))
  linarith

/-- with rank 3 the solution of the normal equations is unique (Cramer) -/
theorem rank3_unique (l : List Obs) (z al be : ℚ) (hN : NormalEqs z al be l)
    (hd : (normalOf l).det ≠ 0) : solveNormal (normalOf l) = some (z, al, be) := by
  unfold NormalEqs at hN
  simp only [lsum_eq_sum] at hN
  have hs := resid_sums z al be l
  rw [hs.1, hs.2.1, hs.2.2] at hN
  obtain ⟨h1, h2, h3⟩ := hN
  unfold solveNormal
  simp only [hd, if_false, Option.some.injEq, Prod.mk.injEq]
  generalize normalOf l = n at *
  unfold Normal.det det3 at hd
  unfold Normal.det det3
  refine ⟨?_, ?_, ?_⟩
  · rw [div_eq_iff hd]
    linear_combination (n.sii * n.sjj - n.sij * n.sij) * h1 - (n.si * n.sjj - n.sj * n.sij) * h2
      + (n.si * n.sij - n.sj * n.sii) * h3
  · rw [div_eq_iff hd]
    linear_combination (-(n.si * n.sjj - n.sij * n.sj)) * h1 + (n.s1 * n.sjj - n.sj * n.sj) * h2
      - (n.s1 * n.sij - n.sj * n.si) * h3
  · rw [div_eq_iff hd]
    linear_combination (n.si * n.sij - n.sii * n.sj) * h1 - (n.s1 * n.sij - n.si * n.sj) * h2
      + (n.s1 * n.sii - n.si * n.si) * h3

/-- two-coordinate observations for the covariance statement -/
structure Obs2 where
  i : ℚ
  j : ℚ
  w : ℚ
  ty : ℚ
  tx : ℚ

def proj (f : Obs2 → ℚ) (l : List Obs2) : List Obs := l.map fun o => ⟨o.i, o.j, o.w, f o⟩

/-- **Affine covariance**: if `(zy, ay, by)` / `(zx, ax, bx)` fit the y / x coordinates, then for
any linear form `p·y + q·x + c` of the positions the fit is the same form of the fits (the constant
goes to the zero point only).  Applied to both rows of an affine map this says: zero is mapped
by the map, `a` and `b` by its linear part. -/
theorem affine_covariant (l : List Obs2) (zy ay by_ zx ax bx p q c : ℚ)
    (hy : NormalEqs zy ay by_ (proj (·.ty) l)) (hx : NormalEqs zx ax bx (proj (·.tx) l)) :
    NormalEqs (p * zy + q * zx + c) (p * ay + q * ax) (p * by_ + q * bx)
      (proj (fun o => p * o.ty + q * o.tx + c) l) := by
  have key : ∀ (g : ℚ → ℚ → ℚ → ℚ),
      ((proj (fun o => p * o.ty + q * o.tx + c) l).map fun o => g o.w o.i o.j *
          resid (p * zy + q * zx + c) (p * ay + q * ax) (p * by_ + q * bx) o).sum
        = p * ((proj (·.ty) l).map fun o => g o.w o.i o.j * resid zy ay by_ o).sum
          + q * ((proj (·.tx) l).map fun o => g o.w o.i o.j * resid zx ax bx o).sum := by
    intro g
    clear hy hx
    unfold proj
    induction l with
    | nil => simp
    | cons o t ih =>
      simp only [List.map_cons, List.sum_cons]
      rw [ih]
      unfold resid
      ring
  unfold NormalEqs at *
  simp only [lsum_eq_sum] at *
  refine ⟨?_, ?_, ?_⟩
  · have := key (fun w _ _ => w); rw [this, hy.1, hx.1]; ring
  · have := key (fun w i _ => w * i); rw [this, hy.2.1, hx.2.1]; ring
  · have := key (fun w _ j => w * j); rw [this, hy.2.2, hx.2.2]; ring

/-- rescaling all weights by a common factor changes nothing -/
theorem weight_scale_invariant (l : List Obs) (k z al be : ℚ) (hk : k ≠ 0) :
    NormalEqs z al be (l.map fun o => { o with w := k * o.w }) ↔ NormalEqs z al be l := by
  unfold NormalEqs
  simp only [lsum_eq_sum]
  have key :
      ((l.map fun o => { o with w := k * o.w }).map fun o => o.w * resid z al be o).sum
        = k * (l.map fun o => o.w * resid z al be o).sum ∧
      ((l.map fun o => { o with w := k * o.w }).map fun o => o.w * o.i * resid z al be o).sum
        = k * (l.map fun o => o.w * o.i * resid z al be o).sum ∧
      ((l.map fun o => { o with w := k * o.w }).map fun o => o.w * o.j * resid z al be o).sum
        = k * (l.map fun o => o.w * o.j * resid z al be o).sum := by
    induction l with
    | nil => simp
    | cons o t ih =>
      obtain ⟨h1, h2, h3⟩ := ih
      simp only [List.map_cons, List.sum_cons, h1, h2, h3]
      unfold resid
      refine ⟨by ring, by ring, by ring⟩
  rw [key.1, key.2.1, key.2.2]
  simp only [mul_eq_zero, hk, false_or]

/-- non-vacuity: three points of an exact lattice -/
example : solveNormal (normalOf [⟨0, 0, 1, 5⟩, ⟨1, 0, 2, 8⟩, ⟨0, 1, 1, 4⟩]) = some (5, 3, -1) := by
  decide +kernel

/-! ### conditioning: how noise in the positions moves the fitted lattice (exact arithmetic) -/

/-- **Noise propagation.**  If every observed coordinate is within `ε` of the lattice `(z, α, β)`
(`t = z + i α + j β + e`, `|e| ≤ ε`) and the weights are non-negative, then for every solution
`(z', α', β')` of the normal equations the predicted coordinate of **any** node `(i, j)` deviates from
the true one by `d` with `det N · d² ≤ vᵀ adj(N) v · ε² Σw`, `v = (1, i, j)`: `|d| ≤ ε sqrt(Σw · vᵀN⁻¹v)`.
The bound is in terms of the indices and weights of the fitted peaks only. -/
theorem noise_propagation (l : List Obs) (hw : ∀ o ∈ l, 0 ≤ o.w) (z al be eps : ℚ)
    (hn : ∀ o ∈ l, |resid z al be o| ≤ eps) (z' al' be' : ℚ) (hN : NormalEqs z' al' be' l) (i j : ℚ) :
    (normalOf l).det * ((z' + i * al' + j * be') - (z + i * al + j * be)) ^ 2
      ≤ (normalOf l).adjq 1 i j * (eps ^ 2 * (normalOf l).s1) :=
  fit_prediction_error l hw z al be eps hn z' al' be' hN i j

/-- at a node that takes part in the fit: `w d² ≤ ε² Σw` (leverage ≤ 1), so with equal weights the
fitted lattice passes within `ε sqrt(n)` of every fitted node and a peak that carries a fraction `f` of
the total weight is reproduced within `ε / sqrt(f)` -/
theorem fitted_node_error (l : List Obs) (hw : ∀ o ∈ l, 0 ≤ o.w) (z al be eps : ℚ)
    (hn : ∀ o ∈ l, |resid z al be o| ≤ eps) (z' al' be' : ℚ) (hN : NormalEqs z' al' be' l)
    (hd : (normalOf l).det ≠ 0) (o : Obs) (ho : o ∈ l) :
    o.w * ((z' + o.i * al' + o.j * be') - (z + o.i * al + o.j * be)) ^ 2 ≤ eps ^ 2 * (normalOf l).s1 :=
  fit_error_at_observation l hw z al be eps hn z' al' be' hN hd o ho

/-- adding peaks (non-negative weights) never lowers the rank of the design -/
theorem rank_monotone {l l' : List Obs} (h : l.Sublist l') (hw : ∀ p ∈ l', 0 ≤ p.w) :
    (normalOf l).det ≤ (normalOf l').det := det_mono_sublist h hw

/-- exact data are recovered exactly -/
theorem exact_recovery (l : List Obs) (z al be : ℚ) (hres : ∀ o ∈ l, resid z al be o = 0)
    (hd : (normalOf l).det ≠ 0) : solveNormal (normalOf l) = some (z, al, be) := solve_exact l z al be hres hd

/-- non-vacuity of the noise bound: four nodes (weights 1, 2, 1, 1), noise +1/10, -1/10, +1/10, 0 on the
lattice (5, 3, -1); the fit is (71/14, 199/70, -33/35), which misses the far node (4, -3) by 51/70; the
bound `det · d² = 2601/700 ≤ 117/20 = vᵀ adj(N) v · ε² Σw` holds with ε = 1/10 -/
example :
    let l : List Obs := [⟨0, 0, 1, 5 + 1 / 10⟩, ⟨1, 0, 2, 8 - 1 / 10⟩, ⟨0, 1, 1, 4 + 1 / 10⟩, ⟨1, 1, 1, 7⟩]
    (∀ o ∈ l, 0 ≤ o.w) ∧ (∀ o ∈ l, |resid 5 3 (-1) o| ≤ 1 / 10) ∧ (normalOf l).det = 7 ∧
      solveNormal (normalOf l) = some (71 / 14, 199 / 70, -33 / 35) ∧
      (normalOf l).det * ((71 / 14 + 4 * (199 / 70) + (-3) * (-33 / 35)) - (5 + 4 * 3 + (-3) * (-1))) ^ 2 = 2601 / 700 ∧
      (normalOf l).adjq 1 4 (-3) * ((1 / 10) ^ 2 * (normalOf l).s1) = 117 / 20 := by
  decide +kernel

end C06
