import BlobfinderModel.Proofs.Lattice
/-!
# C06 — lattice fits are the weighted least-squares optimum and affine-covariant

One coordinate at a time (the objective is separable in y and x): observations `(i, j, w, t)`,
parameters `(z, α, β)` = that coordinate of `(zero, a, b)`, objective
`wss = Σ w (t - (z + i α + j β))²`.  The implementation's `lstsq` call is assumed (A-LA) to
return a solution of the normal equations; the model's executable solver is Cramer's rule.
-/
namespace C06
open Model

/-- The model's solver returns a solution of the normal equations whenever the weighted design
has rank 3 (`det ≠ 0`). -/
theorem cramer_solves_normal_eqs (l : List Obs) (z al be : ℚ)
    (h : solveNormal (normalOf l) = some (z, al, be)) : NormalEqs z al be l := by
  unfold solveNormal at h
  simp only [] at h
  split at h
  · exact absurd h (by simp)
  · rename_i hd
    simp only [Option.some.injEq, Prod.mk.injEq] at h
    obtain ⟨hz, ha, hb⟩ := h
    have hs := resid_sums z al be l
    unfold NormalEqs
    simp only [lsum_eq_sum]
    rw [hs.1, hs.2.1, hs.2.2]
    generalize normalOf l = n at *
    unfold Normal.det det3 at *
    rw [div_eq_iff hd] at hz ha hb
    set D := n.s1 * (n.sii * n.sjj - n.sij * n.sij) - n.si * (n.si * n.sjj - n.sij * n.sj) +
        n.sj * (n.si * n.sij - n.sii * n.sj) with hD
    have e1 : D * (n.st - z * n.s1 - al * n.si - be * n.sj) = 0 := by
      linear_combination (n.s1) * hz + (n.si) * ha + (n.sj) * hb
    have e2 : D * (n.sit - z * n.si - al * n.sii - be * n.sij) = 0 := by
      linear_combination (n.si) * hz + (n.sii) * ha + (n.sij) * hb
    have e3 : D * (n.sjt - z * n.sj - al * n.sij - be * n.sjj) = 0 := by
      linear_combination (n.sj) * hz + (n.sij) * ha + (n.sjj) * hb
    exact ⟨(mul_eq_zero.mp e1).resolve_left hd, (mul_eq_zero.mp e2).resolve_left hd,
      (mul_eq_zero.mp e3).resolve_left hd⟩

/-- **Any solution of the normal equations is a global minimiser of the weighted sum of squared
distances**, for all non-negative weights (integer or fractional indices alike). -/
theorem lsq_optimal (l : List Obs) (hw : ∀ o ∈ l, 0 ≤ o.w) (z al be : ℚ)
    (hN : NormalEqs z al be l) (z' al' be' : ℚ) :
    wss z al be l ≤ wss z' al' be' l := by
  unfold wss
  simp only [lsum_eq_sum]
  have e := wss_expand z al be (z' - z) (al' - al) (be' - be) l
  have ez : z + (z' - z) = z' := by ring
  have ea : al + (al' - al) = al' := by ring
  have eb : be + (be' - be) = be' := by ring
  rw [ez, ea, eb] at e
  unfold NormalEqs at hN
  simp only [lsum_eq_sum] at hN
  rw [e, hN.1, hN.2.1, hN.2.2]
  have := sum_weighted_sq_nonneg l hw (fun o => (z' - z) + o.i * (al' - al) + o.j * (be' - be))
  linarith

/-- with rank 3 the solution of the normal equations is unique (Cramer) -/
theorem rank3_unique (l : List Obs) (z al be : ℚ) (hN : NormalEqs z al be l)
    (hd : (normalOf l).det ≠ 0) : solveNormal (normalOf l) = some (z, al, be) := by
  unfold NormalEqs at hN
  simp only [lsum_eq_sum] at hN
  have hs := resid_sums z al be l
  rw [hs.1, hs.2.1, hs.2.2] at hN
  obtain ⟨h1, h2, h3⟩ := hN
  unfold solveNormal
  simp only [hd, if_false, Option.some.injEq, Prod.mk.injEq]
  generalize normalOf l = n at *
  unfold Normal.det det3 at hd
  unfold Normal.det det3
  refine ⟨?_, ?_, ?_⟩
  · rw [div_eq_iff hd]
    linear_combination (n.sii * n.sjj - n.sij * n.sij) * h1 - (n.si * n.sjj - n.sj * n.sij) * h2
      + (n.si * n.sij - n.sj * n.sii) * h3
  · rw [div_eq_iff hd]
    linear_combination (-(n.si * n.sjj - n.sij * n.sj)) * h1 + (n.s1 * n.sjj - n.sj * n.sj) * h2
      - (n.s1 * n.sij - n.sj * n.si) * h3
  · rw [div_eq_iff hd]
    linear_combination (n.si * n.sij - n.sii * n.sj) * h1 - (n.s1 * n.sij - n.si * n.sj) * h2
      + (n.s1 * n.sii - n.si * n.si) * h3

/-- two-coordinate observations for the covariance statement -/
structure Obs2 where
  i : ℚ
  j : ℚ
  w : ℚ
  ty : ℚ
  tx : ℚ

def proj (f : Obs2 → ℚ) (l : List Obs2) : List Obs := l.map fun o => ⟨o.i, o.j, o.w, f o⟩

/-- **Affine covariance**: if `(zy, ay, by)` / `(zx, ax, bx)` fit the y / x coordinates, then for
any linear form `p·y + q·x + c` of the positions the fit is the same form of the fits (the constant
goes to the zero point only).  Applied to both rows of an affine map this says: zero is mapped
by the map, `a` and `b` by its linear part. -/
theorem affine_covariant (l : List Obs2) (zy ay by_ zx ax bx p q c : ℚ)
    (hy : NormalEqs zy ay by_ (proj (·.ty) l)) (hx : NormalEqs zx ax bx (proj (·.tx) l)) :
    NormalEqs (p * zy + q * zx + c) (p * ay + q * ax) (p * by_ + q * bx)
      (proj (fun o => p * o.ty + q * o.tx + c) l) := by
  have key : ∀ (g : ℚ → ℚ → ℚ → ℚ),
      ((proj (fun o => p * o.ty + q * o.tx + c) l).map fun o => g o.w o.i o.j *
          resid (p * zy + q * zx + c) (p * ay + q * ax) (p * by_ + q * bx) o).sum
        = p * ((proj (·.ty) l).map fun o => g o.w o.i o.j * resid zy ay by_ o).sum
          + q * ((proj (·.tx) l).map fun o => g o.w o.i o.j * resid zx ax bx o).sum := by
    intro g
    clear hy hx
    unfold proj
    induction l with
    | nil => simp
    | cons o t ih =>
      simp only [List.map_cons, List.sum_cons]
      rw [ih]
      unfold resid
      ring
  unfold NormalEqs at *
  simp only [lsum_eq_sum] at *
  refine ⟨?_, ?_, ?_⟩
  · have := key (fun w _ _ => w); rw [this, hy.1, hx.1]; ring
  · have := key (fun w i _ => w * i); rw [this, hy.2.1, hx.2.1]; ring
  · have := key (fun w _ j => w * j); rw [this, hy.2.2, hx.2.2]; ring

/-- rescaling all weights by a common factor changes nothing -/
theorem weight_scale_invariant (l : List Obs) (k z al be : ℚ) (hk : k ≠ 0) :
    NormalEqs z al be (l.map fun o => { o with w := k * o.w }) ↔ NormalEqs z al be l := by
  unfold NormalEqs
  simp only [lsum_eq_sum]
  have key :
      ((l.map fun o => { o with w := k * o.w }).map fun o => o.w * resid z al be o).sum
        = k * (l.map fun o => o.w * resid z al be o).sum ∧
      ((l.map fun o => { o with w := k * o.w }).map fun o => o.w * o.i * resid z al be o).sum
        = k * (l.map fun o => o.w * o.i * resid z al be o).sum ∧
      ((l.map fun o => { o with w := k * o.w }).map fun o => o.w * o.j * resid z al be o).sum
        = k * (l.map fun o => o.w * o.j * resid z al be o).sum := by
    induction l with
    | nil => simp
    | cons o t ih =>
      obtain ⟨h1, h2, h3⟩ := ih
      simp only [List.map_cons, List.sum_cons, h1, h2, h3]
      unfold resid
      refine ⟨by ring, by ring, by ring⟩
  rw [key.1, key.2.1, key.2.2]
  simp only [mul_eq_zero, hk, false_or]

/-- non-vacuity: three points of an exact lattice -/
example : solveNormal (normalOf [⟨0, 0, 1, 5⟩, ⟨1, 0, 2, 8⟩, ⟨0, 1, 1, 4⟩]) = some (5, 3, -1) := by
  decide +kernel

end C06
