import BlobfinderModel.Properties.C01
/-!
# C07 — peak finding returns the true disk positions for every frame shape  (partial)
Proved: `get_correlation` inverts with the frame's own shape and shifts with `ifftshift` (source
pinned), so by `C03.corr_index_map` the response to a pixel-centred feature is read with the mask
centred on that pixel for even, odd and non-square shapes; on the circular frame, well separated
disks give map values at their centres that are linear in their brightness with one common slope —
brightness order = height order.
For flat (hard-edged) disks and sign-matched templates each centre is a strict peak: at every other pixel from which the
mask reaches that disk only, the map is strictly lower (`separated_disks_local`, `separated_disk_is_strict_peak`), and a
pixel out of reach of every disk sees the background value only (`separated_background`).
Residual (oracle): the same for the library's antialiased disks / masks and the behaviour of
`skimage.feature.peak_local_max` (A-EXT).
-/
namespace C07
open Model C01

/-- with that shift a feature on pixel `q` is seen with the mask centre on `q`, for every axis
length (even or odd) -/
theorem corr_peak_index (mask : ℤ → ℚ) (n q : ℤ) (hn : 0 < n) (hq : 0 ≤ q ∧ q < n) :
    circConv1 mask (fun t => if t = q then 1 else 0) n (shiftSrc Gen.getcorr_shift n q) = mask (n / 2) := by
  have : shiftSrc Gen.getcorr_shift n q = shiftSrc "fft.ifftshift" n q := by
    unfold shiftSrc Gen.getcorr_shift; simp
  rw [this]
  exact C03.corr_peak_index mask n q hn hq

/-- **`get_correlation` as the source has it now is the direct circular sum, via the FFT route, for
every frame shape (even, odd, non-square)**: the model's map value at `(y, x)` is the inverse 2-D DFT
of the product of the DFTs of mask and frame read at `((y + H//2) mod H, (x + W//2) mod W)` — what
`ifftshift(irfft2(rfft2(mask) * rfft2(frame), s=frame.shape))[y, x]` denotes (the mathematical part
of A-FFT, see `C03.corr_is_fft_route`). -/
theorem get_correlation_is_fft_route (mask data : ℤ → ℤ → ℚ) (H W : ℕ) [NeZero H] [NeZero W] (y x : ℤ) :
    ((corrMap Gen.getcorr_shift mask data H W y x : ℚ) : ℂ)
      = Fourier.invDft2 (fun k1 k2 => Fourier.dft2 (liftZ H W mask) k1 k2 * Fourier.dft2 (liftZ H W data) k1 k2)
          (((y + (H : ℤ) / 2) % (H : ℤ) : ℤ) : ZMod H) (((x + (W : ℤ) / 2) % (W : ℤ) : ℤ) : ZMod W) := by
  rw [corrMap_eq_invDft2]; rfl

/-- Defect D4: `fftshift` and a default-length inverse transform displace the map for odd sizes -/
theorem fftshift_counterexample : shiftSrc "correlation.fft.fftshift" 5 2 ≠ shiftSrc Gen.getcorr_shift 5 2 := by
  decide

/-- **well separated disks: the map value at the centre of disk `k` is `A_k · S + B · Σ mask` with
one common `S`** (the overlap of the mask with a single disk), on any finite abelian group of pixel
positions; `hsep` says that, seen from the mask placed on `q k`, every other disk is out of reach -/
theorem separated_disks_linear {G ι : Type} [AddCommGroup G] [Fintype G] [DecidableEq ι]
    (s : Finset ι) (c : G) (mask d : G → ℚ) (q : ι → G) (A : ι → ℚ) (B : ℚ) (k : ι) (hk : k ∈ s)
    (hsep : ∀ l ∈ s, l ≠ k → ∀ m : G, mask m * d (q k + c - m - q l) = 0) :
    gcorr c mask (fun x => (∑ l ∈ s, A l * d (x - q l)) + B) (q k)
      = A k * (∑ m : G, mask m * d (c - m)) + B * ∑ m : G, mask m := by
  unfold gcorr
  have h1 : ∀ m : G, mask m * ((∑ l ∈ s, A l * d (q k + c - m - q l)) + B)
      = A k * (mask m * d (c - m)) + B * mask m := by
    intro m
    have hsum : ∑ l ∈ s, A l * (mask m * d (q k + c - m - q l)) = A k * (mask m * d (q k + c - m - q k)) := by
      apply Finset.sum_eq_single_of_mem k hk
      intro l hl hlk
      rw [hsep l hl hlk m, mul_zero]
    have e : q k + c - m - q k = c - m := by abel
    rw [e] at hsum
    rw [mul_add, Finset.mul_sum]
    have : ∀ l ∈ s, mask m * (A l * d (q k + c - m - q l)) = A l * (mask m * d (q k + c - m - q l)) := by
      intro l _; ring
    rw [Finset.sum_congr rfl this, hsum]; ring
  simp only [h1]
  rw [Finset.sum_add_distrib, ← Finset.mul_sum, ← Finset.mul_sum]

/-- **locality for well separated features**: at any pixel `j` from which the mask reaches no feature other than `k`,
the map of the whole frame equals the map of a frame that contains feature `k` alone -/
theorem separated_disks_local {G ι : Type} [AddCommGroup G] [Fintype G] [DecidableEq ι]
    (s : Finset ι) (c : G) (mask d : G → ℚ) (q : ι → G) (A : ι → ℚ) (B : ℚ) (k : ι) (hk : k ∈ s) (j : G)
    (hsep : ∀ l ∈ s, l ≠ k → ∀ m : G, mask m * d (j + c - m - q l) = 0) :
    gcorr c mask (fun x => (∑ l ∈ s, A l * d (x - q l)) + B) j
      = gcorr c mask (fun x => A k * d (x - q k) + B) j := by
  unfold gcorr
  refine Finset.sum_congr rfl fun m _ => ?_
  have hsum : ∑ l ∈ s, A l * (mask m * d (j + c - m - q l)) = A k * (mask m * d (j + c - m - q k)) := by
    apply Finset.sum_eq_single_of_mem k hk
    intro l hl hlk
    rw [hsep l hl hlk m, mul_zero]
  have : ∀ l ∈ s, mask m * (A l * d (j + c - m - q l)) = A l * (mask m * d (j + c - m - q l)) := by
    intro l _; ring
  rw [mul_add, Finset.mul_sum, Finset.sum_congr rfl this, hsum]; ring

/-- a pixel from which the mask reaches no feature at all sees the background only -/
theorem separated_background {G ι : Type} [AddCommGroup G] [Fintype G]
    (s : Finset ι) (c : G) (mask d : G → ℚ) (q : ι → G) (A : ι → ℚ) (B : ℚ) (j : G)
    (hfar : ∀ l ∈ s, ∀ m : G, mask m * d (j + c - m - q l) = 0) :
    gcorr c mask (fun x => (∑ l ∈ s, A l * d (x - q l)) + B) j = B * ∑ m : G, mask m := by
  unfold gcorr
  rw [Finset.mul_sum]
  refine Finset.sum_congr rfl fun m _ => ?_
  have : ∑ l ∈ s, mask m * (A l * d (j + c - m - q l)) = 0 := by
    apply Finset.sum_eq_zero
    intro l hl
    have := hfar l hl m
    calc mask m * (A l * d (j + c - m - q l)) = A l * (mask m * d (j + c - m - q l)) := by ring
      _ = 0 := by rw [this, mul_zero]
  rw [mul_add, Finset.mul_sum, this]; ring

/-- **every disk centre dominates its surroundings strictly**: flat disks `q l + S` of amplitudes `A l`, a sign-matched
template that is positive on `S`; at every pixel `j ≠ q k` from which the mask reaches no disk other than `k`, the map is
strictly below its value at the centre `q k` -/
theorem separated_disk_is_strict_peak {G ι : Type} [AddCommGroup G] [Fintype G] [DecidableEq G] [DecidableEq ι]
    (s : Finset ι) (c : G) (mask : G → ℚ) (S : Finset G) (q : ι → G) (A : ι → ℚ) (B : ℚ) (k : ι) (hk : k ∈ s)
    (hA : 0 < A k) (hS : ∀ u, u ∈ S ↔ -u ∈ S)
    (hin : ∀ u ∈ S, 0 < mask (c + u)) (hout : ∀ u, u ∉ S → mask (c + u) ≤ 0)
    (hshape : ∀ d : G, d ≠ 0 → ∃ u ∈ S, d - u ∉ S)
    (j : G) (hj : j ≠ q k)
    (hsepj : ∀ l ∈ s, l ≠ k → ∀ m : G, mask m * (if j + c - m - q l ∈ S then (1 : ℚ) else 0) = 0)
    (hsepq : ∀ l ∈ s, l ≠ k → ∀ m : G, mask m * (if q k + c - m - q l ∈ S then (1 : ℚ) else 0) = 0) :
    gcorr c mask (fun x => (∑ l ∈ s, A l * (if x - q l ∈ S then (1 : ℚ) else 0)) + B) j
      < gcorr c mask (fun x => (∑ l ∈ s, A l * (if x - q l ∈ S then (1 : ℚ) else 0)) + B) (q k) := by
  have h1 := separated_disks_local s c mask (fun x => if x ∈ S then (1 : ℚ) else 0) q A B k hk j hsepj
  have h2 := separated_disks_local s c mask (fun x => if x ∈ S then (1 : ℚ) else 0) q A B k hk (q k) hsepq
  rw [h1, h2]
  exact sign_matched_unique c (q k) mask S (A k) B hA hS hin hout hshape j hj

/-- so for a positive overlap `S` the brightness order is the height order -/
theorem brightness_order (S Bm A1 A2 : ℚ) (hS : 0 < S) (h : A1 < A2) : A1 * S + Bm < A2 * S + Bm := by
  nlinarith

end C07
