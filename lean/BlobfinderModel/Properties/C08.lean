import BlobfinderModel.Model.Blocks
/-!
# C08 — results do not depend on buffer size, peak order or other peaks

`n` = number of peaks, `b` = buffer count (`len(crop_bufs)` resp. `buf_count`).
All statements hold for every `n ≥ 0`, every `b ≥ 1`, every per-crop function `f`, every
peak list and every previous content of the output arrays.
-/
namespace C08
open Model

/-- Python floor division by a positive number, characterised. -/
theorem fdiv_pos_spec (a b : Int) (hb : 0 < b) :
    Int.fdiv a b * b ≤ a ∧ a < (Int.fdiv a b + 1) * b := by
  rw [Int.fdiv_eq_ediv_of_nonneg _ (Int.le_of_lt hb)]
  constructor
  · exact Int.ediv_mul_le a (by omega)
  · exact Int.lt_ediv_add_one_mul_self a hb

/-- What the theorems need from the generated arithmetic (proved for both pipelines). -/
structure GoodArith (A : BlockArith) : Prop where
  start_eq : ∀ n b k, A.start n b k = k * b
  stop_eq : ∀ n b k, A.stop n b k = min ((k + 1) * b) n
  size_eq : ∀ s e, A.size s e = e - s
  count_lo : ∀ n b, 0 ≤ n → 0 < b → (A.blockCount n b - 1) * b < n ∨ n = 0
  count_hi : ∀ n b, 0 ≤ n → 0 < b → n ≤ A.blockCount n b * b
  count_nonneg : ∀ n b, 0 ≤ n → 0 < b → 0 ≤ A.blockCount n b

theorem fast_good : GoodArith fastArith where
  start_eq := by intro n b k; rfl
  stop_eq := by intro n b k; rfl
  size_eq := by intro s e; rfl
  count_lo := by
    intro n b hn hb
    have h := fdiv_pos_spec (n - 1) b hb
    simp only [fastArith, Gen.fast_block_count]
    by_cases h0 : n = 0
    · exact Or.inr h0
    · left
      have e : Int.fdiv (n - 1) b + 1 - 1 = Int.fdiv (n - 1) b := by omega
      rw [e]; omega
  count_hi := by
    intro n b hn hb
    have h := fdiv_pos_spec (n - 1) b hb
    simp only [fastArith, Gen.fast_block_count]
    omega
  count_nonneg := by
    intro n b hn hb
    have h := fdiv_pos_spec (n - 1) b hb
    simp only [fastArith, Gen.fast_block_count]
    by_cases hneg : Int.fdiv (n - 1) b + 1 < 0
    · exfalso
      have : (Int.fdiv (n - 1) b + 1) * b ≤ (-1) * b :=
        Int.mul_le_mul_of_nonneg_right (by omega) (Int.le_of_lt hb)
      omega
    · omega

theorem full_good : GoodArith fullArith where
  start_eq := by intro n b k; rfl
  stop_eq := by intro n b k; simp only [fullArith, Gen.full_stop]; omega
  size_eq := by intro s e; rfl
  count_lo := by
    intro n b hn hb
    have h := fdiv_pos_spec (n - 1) b hb
    simp only [fullArith, Gen.full_block_count]
    by_cases h0 : n = 0
    · exact Or.inr h0
    · left
      have e : Int.fdiv (n - 1) b + 1 - 1 = Int.fdiv (n - 1) b := by omega
      rw [e]; omega
  count_hi := by
    intro n b hn hb
    have h := fdiv_pos_spec (n - 1) b hb
    simp only [fullArith, Gen.full_block_count]
    omega
  count_nonneg := by
    intro n b hn hb
    have h := fdiv_pos_spec (n - 1) b hb
    simp only [fullArith, Gen.full_block_count]
    by_cases hneg : Int.fdiv (n - 1) b + 1 < 0
    · exfalso
      have : (Int.fdiv (n - 1) b + 1) * b ≤ (-1) * b :=
        Int.mul_le_mul_of_nonneg_right (by omega) (Int.le_of_lt hb)
      omega
    · omega

section generic
variable {α β : Type} {A : BlockArith} (hA : GoodArith A)
include hA

/-- Loop invariant: after `m` blocks exactly the entries `0 ≤ i < min (m*b) n` hold `f (peaks i)`;
all other entries are untouched. -/
theorem runBlocksN_spec (f : α → β) (peaks : Int → α) (n b : Int) (hb : 0 < b)
    (out : Int → β) (m : Nat) (i : Int) :
    runBlocksN A f peaks n b out m i
      = if 0 ≤ i ∧ i < min ((m : Int) * b) n then f (peaks i) else out i := by
  induction m with
  | zero =>
    simp only [runBlocksN]
    rw [if_neg]; simp only [Int.natCast_zero, Int.zero_mul]; omega
  | succ m ih =>
    simp only [runBlocksN, blockStep, hA.start_eq, hA.stop_eq, ih]
    have e : ((m + 1 : Nat) : Int) * b = (m : Int) * b + b := by
      rw [Int.natCast_succ, Int.add_mul, Int.one_mul]
    have e' : ((m : Int) + 1) * b = (m : Int) * b + b := by
      rw [Int.add_mul, Int.one_mul]
    have hmb : 0 ≤ (m : Int) * b := Int.mul_nonneg (Int.natCast_nonneg m) (Int.le_of_lt hb)
    rw [e, e']
    by_cases h1 : (m : Int) * b ≤ i ∧ i < min ((m : Int) * b + b) n
    · rw [if_pos h1, if_pos (by omega)]
    · rw [if_neg h1]
      by_cases h2 : 0 ≤ i ∧ i < min ((m : Int) * b) n
      · rw [if_pos h2, if_pos (by omega)]
      · rw [if_neg h2, if_neg (by omega)]

/-- **Every output entry is written with the value for its own peak, for every buffer
count** (incl. `b = 1` and `b > n`), and nothing else is written. -/
theorem runBlocks_spec (f : α → β) (peaks : Int → α) (n b : Int) (hn : 0 ≤ n) (hb : 0 < b)
    (out : Int → β) (i : Int) :
    runBlocks A f peaks n b out i = if 0 ≤ i ∧ i < n then f (peaks i) else out i := by
  unfold runBlocks
  rw [runBlocksN_spec hA f peaks n b hb out]
  have hc := hA.count_nonneg n b hn hb
  have hhi := hA.count_hi n b hn hb
  have e : (((A.blockCount n b).toNat : Nat) : Int) = A.blockCount n b := Int.toNat_of_nonneg hc
  rw [e]
  by_cases h : 0 ≤ i ∧ i < n
  · rw [if_pos h, if_pos (by omega)]
  · rw [if_neg h, if_neg (by omega)]

/-- The result does not depend on the buffer count. -/
theorem buffer_count_irrelevant (f : α → β) (peaks : Int → α) (n b b' : Int) (hn : 0 ≤ n)
    (hb : 0 < b) (hb' : 0 < b') (out : Int → β) :
    runBlocks A f peaks n b out = runBlocks A f peaks n b' out := by
  funext i
  rw [runBlocks_spec hA f peaks n b hn hb, runBlocks_spec hA f peaks n b' hn hb']

/-- Reordering the peak list reorders the results in the same way (any `σ`, in particular
permutations and lists with duplicates). -/
theorem reorder_equivariant (f : α → β) (peaks : Int → α) (σ : Int → Int) (n b : Int)
    (hn : 0 ≤ n) (hb : 0 < b) (out : Int → β) (i : Int) (hi : 0 ≤ i ∧ i < n)
    (hσ : 0 ≤ σ i ∧ σ i < n) :
    runBlocks A f (fun j => peaks (σ j)) n b out i = runBlocks A f peaks n b out (σ i) := by
  rw [runBlocks_spec hA _ _ n b hn hb, runBlocks_spec hA _ _ n b hn hb, if_pos hi, if_pos hσ]

/-- Adding, removing or changing *other* peaks (and changing the list length or buffer count)
does not change the result reported for a peak. -/
theorem other_peaks_irrelevant (f : α → β) (peaks peaks' : Int → α) (n n' b b' : Int)
    (hn : 0 ≤ n) (hn' : 0 ≤ n') (hb : 0 < b) (hb' : 0 < b') (out out' : Int → β)
    (i i' : Int) (hi : 0 ≤ i ∧ i < n) (hi' : 0 ≤ i' ∧ i' < n') (same : peaks i = peaks' i') :
    runBlocks A f peaks n b out i = runBlocks A f peaks' n' b' out' i' := by
  rw [runBlocks_spec hA _ _ n b hn hb, runBlocks_spec hA _ _ n' b' hn' hb', if_pos hi,
    if_pos hi', same]

/-- Shape of the schedule: every block is non-empty, fits the buffer, blocks are consecutive
and the last one ends at `n`. -/
theorem blocks_cover (n b : Int) (hn : 1 ≤ n) (hb : 0 < b) (k : Int) (hk : 0 ≤ k)
    (hk' : k < A.blockCount n b) :
    A.start n b 0 = 0 ∧
    1 ≤ A.size (A.start n b k) (A.stop n b k) ∧ A.size (A.start n b k) (A.stop n b k) ≤ b ∧
    (k + 1 < A.blockCount n b → A.stop n b k = A.start n b (k + 1)) ∧
    (k + 1 = A.blockCount n b → A.stop n b k = n) := by
  have hlo := hA.count_lo n b (by omega) hb
  have hhi := hA.count_hi n b (by omega) hb
  simp only [hA.start_eq, hA.stop_eq, hA.size_eq]
  have e' : (k + 1) * b = k * b + b := by rw [Int.add_mul, Int.one_mul]
  have hmono : k * b ≤ (A.blockCount n b - 1) * b :=
    Int.mul_le_mul_of_nonneg_right (by omega) (Int.le_of_lt hb)
  rw [e']
  refine ⟨by omega, by omega, by omega, ?_, ?_⟩
  · intro hlt
    have : (k + 1) * b ≤ (A.blockCount n b - 1) * b :=
      Int.mul_le_mul_of_nonneg_right (by omega) (Int.le_of_lt hb)
    rw [e'] at this
    have e2 : (k + 1) * b = k * b + b := e'
    omega
  · intro heq
    have : k = A.blockCount n b - 1 := by omega
    rw [this] at *
    have e3 : (A.blockCount n b - 1) * b + b = A.blockCount n b * b := by
      rw [Int.sub_mul, Int.one_mul]; omega
    omega

end generic

/-- The theorems above instantiated for the two pipelines of the current source. -/
theorem fast_runBlocks_spec {α β : Type} (f : α → β) (peaks : Int → α) (n b : Int) (hn : 0 ≤ n)
    (hb : 0 < b) (out : Int → β) (i : Int) :
    runBlocks fastArith f peaks n b out i = if 0 ≤ i ∧ i < n then f (peaks i) else out i :=
  runBlocks_spec fast_good f peaks n b hn hb out i

theorem full_runBlocks_spec {α β : Type} (f : α → β) (peaks : Int → α) (n b : Int) (hn : 0 ≤ n)
    (hb : 0 < b) (out : Int → β) (i : Int) :
    runBlocks fullArith f peaks n b out i = if 0 ≤ i ∧ i < n then f (peaks i) else out i :=
  runBlocks_spec full_good f peaks n b hn hb out i

/-- `get_buf_count` returns between 1 and the number of peaks … -/
theorem buf_count_bounds (c n itemsize limit : Int) (hn : 1 ≤ n) :
    1 ≤ Gen.get_buf_count c n itemsize limit ∧ Gen.get_buf_count c n itemsize limit ≤ n := by
  simp only [Gen.get_buf_count]
  omega

/-- … and respects the byte limit whenever a single crop fits. -/
theorem buf_count_respects_limit (c n itemsize limit : Int) (hn : 1 ≤ n) (hc : 1 ≤ c)
    (hi : 1 ≤ itemsize) (hfit : (2 * c) ^ 2 * itemsize ≤ limit) :
    Gen.get_buf_count c n itemsize limit * ((2 * c) ^ 2 * itemsize) ≤ limit := by
  simp only [Gen.get_buf_count]
  have hpos : 0 < (2 * c) ^ 2 * itemsize := by
    have h1 : 0 < (2 * c) ^ 2 := Int.pow_pos (by omega)
    exact Int.mul_pos h1 (by omega)
  have h := fdiv_pos_spec limit ((2 * c) ^ 2 * itemsize) hpos
  generalize (2 * c) ^ 2 * itemsize = s at *
  generalize Int.fdiv limit s = q at *
  have hq : 1 ≤ q := by
    by_cases hq0 : q ≤ 0
    · exfalso
      have : (q + 1) * s ≤ 1 * s := Int.mul_le_mul_of_nonneg_right (by omega) (Int.le_of_lt hpos)
      omega
    · omega
  have hmin : min (max 1 q) n ≤ q := by omega
  have : min (max 1 q) n * s ≤ q * s := Int.mul_le_mul_of_nonneg_right hmin (Int.le_of_lt hpos)
  omega

/-- Non-vacuity / concrete schedule: 7 peaks, buffer for 3 → blocks [0,3) [3,6) [6,7). -/
example : schedule fastArith 7 3 = [(0, 3, 3), (3, 6, 3), (6, 7, 1)] := by decide
example : schedule fullArith 5 8 = [(0, 5, 5)] := by decide
example : Gen.get_buf_count 8 40 4 (2 ^ 19) = 40 ∧ Gen.get_buf_count 8 40 4 3000 = 2 := by decide

end C08
