import BlobfinderModel.Properties.C13
import BlobfinderModel.Properties.C08
import BlobfinderModel.Model.State
import BlobfinderModel.Proofs.Pipeline
/-!
# C09 — no state leaks between calls through reused buffers and output arrays

`St` holds the crop buffers and the output arrays.  A call crops into the buffers (seeing
their previous content), evaluates them and leaves in-place-modified data behind.
The theorems say: whatever the state was, every output entry of the current call is the
evaluation of the zero-padded window of *this* frame around *this* peak.
-/
namespace C09
open Model

variable {α β : Type} [OfNat α 0]

/-- `eval` only looks at the `h × w` cells of a crop. -/
def EvalLocal (eval : (Int → Int → α) → β) (h w : Int) : Prop :=
  ∀ g g' : Int → Int → α, (∀ y x, 0 ≤ y → y < h → 0 ≤ x → x < w → g y x = g' y x) → eval g = eval g'

/-- A cropping back-end is *defining* if every cell of the slot is determined by the frame and
the peak alone (C13's specification), whatever the slot held before. -/
def Defining (crop : CropFn α) : Prop :=
  ∀ (old frame : Int → Int → α) (fy fx c p0 p1 h w y x : Int), 0 ≤ fy → 0 ≤ fx →
    0 ≤ y → y < h → 0 ≤ x → x < w →
    crop old frame fy fx c p0 p1 h w y x = window frame fy fx (p0 - c + y) (p1 - c + x)

theorem pixelCrop_defining : Defining (pixelCrop (α := α)) := by
  intro old frame fy fx c p0 p1 h w y x _ _ _ _ _ _
  exact C13.cropPixel_eq_window frame fy fx c p0 p1 y x

theorem sliceCrop_defining : Defining (sliceCrop (α := α)) := by
  intro old frame fy fx c p0 p1 h w y x hfy hfx hy hyh hx hxw
  exact C13.cropSlice_eq_window old frame fy fx c p0 p1 h w y x hfy hfx hy hyh hx hxw

/-- after cropping, the evaluated value of a slot does not depend on the previous state -/
theorem crop_defines_block (crop : CropFn α) (hc : Defining crop) (eval : (Int → Int → α) → β)
    (h w : Int) (he : EvalLocal eval h w) (c : Int) (cl : Call α) (hfy : 0 ≤ cl.fy)
    (hfx : 0 ≤ cl.fx) (old : Int → Int → α) (i : Int) :
    eval (fun y x => crop old cl.frame cl.fy cl.fx c (cl.peaks i).1 (cl.peaks i).2 h w y x)
      = eval (windowCrop cl c i) := by
  apply he
  intro y x hy hyh hx hxw
  exact hc old cl.frame cl.fy cl.fx c _ _ h w y x hfy hfx hy hyh hx hxw

/-- the `out` component of the stateful loop is the stateless block loop of C08 applied to
`F i = eval (window of peak i)` -/
theorem runStN_out (A : BlockArith) (hA : C08.GoodArith A) (crop : CropFn α) (hc : Defining crop)
    (eval : (Int → Int → α) → β) (post : (Int → Int → α) → (Int → Int → α)) (c h w : Int)
    (he : EvalLocal eval h w) (cl : Call α) (hfy : 0 ≤ cl.fy) (hfx : 0 ≤ cl.fx) (st : St α β)
    (m : Nat) :
    (runStN A crop eval post c h w cl st m).out
      = runBlocksN A (fun i => eval (windowCrop cl c i)) (fun i => i) cl.n cl.b st.out m := by
  induction m with
  | zero => rfl
  | succ m ih =>
    funext i
    simp only [runStN, runBlocksN, blockStepSt, blockStep, ih]
    by_cases hin : A.start cl.n cl.b ↑m ≤ i ∧ i < A.stop cl.n cl.b ↑m
    · rw [if_pos hin, if_pos hin]
      have e : A.start cl.n cl.b ↑m + (i - A.start cl.n cl.b ↑m) = i := by omega
      have := crop_defines_block crop hc eval h w he c cl hfy hfx
        ((runStN A crop eval post c h w cl st m).bufs (i - A.start cl.n cl.b ↑m)) i
      rw [← this, e]
    · rw [if_neg hin, if_neg hin]

/-- **Outputs of a call do not depend on the state it starts from**: every entry `0 ≤ i < n`
is overwritten with the evaluation of this frame's window around peak `i`; this holds for any
buffer content, any previous content of the output arrays, both back-ends, any buffer count. -/
theorem outputs_overwritten (A : BlockArith) (hA : C08.GoodArith A) (crop : CropFn α)
    (hc : Defining crop) (eval : (Int → Int → α) → β) (post : (Int → Int → α) → (Int → Int → α))
    (c h w : Int) (he : EvalLocal eval h w) (cl : Call α) (hfy : 0 ≤ cl.fy) (hfx : 0 ≤ cl.fx)
    (hn : 0 ≤ cl.n) (hb : 0 < cl.b) (st : St α β) (i : Int) (hi : 0 ≤ i ∧ i < cl.n) :
    (processFrame A crop eval post c h w st cl).out i = eval (windowCrop cl c i) := by
  unfold processFrame
  rw [runStN_out A hA crop hc eval post c h w he cl hfy hfx st]
  have := C08.runBlocks_spec hA (fun i => eval (windowCrop cl c i)) (fun i => i) cl.n cl.b hn hb
    st.out i
  unfold runBlocks at this
  rw [this, if_pos hi]

theorem step_out_indep_state (A : BlockArith) (hA : C08.GoodArith A) (crop : CropFn α)
    (hc : Defining crop) (eval : (Int → Int → α) → β) (post : (Int → Int → α) → (Int → Int → α))
    (c h w : Int) (he : EvalLocal eval h w) (cl : Call α) (hfy : 0 ≤ cl.fy) (hfx : 0 ≤ cl.fx)
    (hn : 0 ≤ cl.n) (hb : 0 < cl.b) (st st' : St α β) (i : Int) (hi : 0 ≤ i ∧ i < cl.n) :
    (processFrame A crop eval post c h w st cl).out i
      = (processFrame A crop eval post c h w st' cl).out i := by
  rw [outputs_overwritten A hA crop hc eval post c h w he cl hfy hfx hn hb st i hi,
    outputs_overwritten A hA crop hc eval post c h w he cl hfy hfx hn hb st' i hi]

/-- **History independence**: after any sequence of earlier calls (other frames, other peak
lists, other buffer counts) on the same buffers and output arrays, the outputs of the last
call equal those of the same call on any other state (e.g. fresh zeroed buffers). -/
theorem history_indep (A : BlockArith) (hA : C08.GoodArith A) (crop : CropFn α)
    (hc : Defining crop) (eval : (Int → Int → α) → β) (post : (Int → Int → α) → (Int → Int → α))
    (c h w : Int) (he : EvalLocal eval h w) (earlier : List (Call α)) (cl : Call α)
    (hfy : 0 ≤ cl.fy) (hfx : 0 ≤ cl.fx) (hn : 0 ≤ cl.n) (hb : 0 < cl.b) (st fresh : St α β)
    (i : Int) (hi : 0 ≤ i ∧ i < cl.n) :
    (runHistory A crop eval post c h w st (earlier ++ [cl])).out i
      = (processFrame A crop eval post c h w fresh cl).out i := by
  unfold runHistory
  rw [List.foldl_append]
  exact step_out_indep_state A hA crop hc eval post c h w he cl hfy hfx hn hb _ fresh i hi

/-- the statement of `history_indep` for a fixed pipeline arithmetic and back-end -/
def HistoryIndep (α β : Type) [OfNat α 0] (A : BlockArith) (crop : CropFn α) : Prop :=
  ∀ (eval : (Int → Int → α) → β) (post : (Int → Int → α) → (Int → Int → α)) (c h w : Int),
    EvalLocal eval h w → ∀ (earlier : List (Call α)) (cl : Call α), 0 ≤ cl.fy → 0 ≤ cl.fx →
    0 ≤ cl.n → 0 < cl.b → ∀ (st fresh : St α β) (i : Int), 0 ≤ i ∧ i < cl.n →
    (runHistory A crop eval post c h w st (earlier ++ [cl])).out i
      = (processFrame A crop eval post c h w fresh cl).out i

/-- instantiations for the code as it is now: both pipelines × both back-ends -/
theorem fast_pixel_history_indep : HistoryIndep α β fastArith pixelCrop :=
  fun eval post c h w he earlier cl hfy hfx hn hb st fresh i hi =>
    history_indep fastArith C08.fast_good pixelCrop pixelCrop_defining eval post c h w he earlier
      cl hfy hfx hn hb st fresh i hi

theorem fast_slicing_history_indep : HistoryIndep α β fastArith sliceCrop :=
  fun eval post c h w he earlier cl hfy hfx hn hb st fresh i hi =>
    history_indep fastArith C08.fast_good sliceCrop sliceCrop_defining eval post c h w he earlier
      cl hfy hfx hn hb st fresh i hi

theorem full_pixel_history_indep : HistoryIndep α β fullArith pixelCrop :=
  fun eval post c h w he earlier cl hfy hfx hn hb st fresh i hi =>
    history_indep fullArith C08.full_good pixelCrop pixelCrop_defining eval post c h w he earlier
      cl hfy hfx hn hb st fresh i hi

theorem full_slicing_history_indep : HistoryIndep α β fullArith sliceCrop :=
  fun eval post c h w he earlier cl hfy hfx hn hb st fresh i hi =>
    history_indep fullArith C08.full_good sliceCrop sliceCrop_defining eval post c h w he earlier
      cl hfy hfx hn hb st fresh i hi

/-! ### The concrete composed pipelines: no locality hypothesis left

`Model.fastEval` (log scaling → correlation map → evaluation kernels) and `Model.fullEval` are the
per-crop functions of the composed pipeline model; they provably read only the `2c × 2c` cells of
the crop (`Model.fastEval_congr`, `Model.fullEval_congr`), so the history theorems hold for them
without the `EvalLocal` assumption. -/

theorem fastEval_local (L : ℚ → ℚ) (mask : ℤ → ℤ → ℚ) (c : ℕ) (hc : 0 < c) :
    EvalLocal (fastEval L mask c) (2 * c) (2 * c) :=
  fun g g' h => fastEval_congr L mask c hc g g' h

theorem fullEval_local (c : ℕ) (hc : 0 < c) : EvalLocal (fullEval c) (2 * c) (2 * c) :=
  fun g g' h => fullEval_congr c hc g g' h

/-- **C09 for the crop-based pipeline as composed in the model, both back-ends, any history**: after
any sequence of earlier calls on the same crop buffers and output arrays (whatever `post` leaves in
the buffers), entry `i` of the last call is the per-crop pipeline applied to the zero-padded window
of that call's frame around that call's peak `i` — a function of frame, mask and peak alone. -/
theorem fast_history_spec (crop : CropFn ℚ) (hcrop : Defining crop) (L : ℚ → ℚ) (mask : ℤ → ℤ → ℚ)
    (c : ℕ) (hc : 0 < c) (post : (ℤ → ℤ → ℚ) → (ℤ → ℤ → ℚ)) (earlier : List (Call ℚ)) (cl : Call ℚ)
    (hfy : 0 ≤ cl.fy) (hfx : 0 ≤ cl.fx) (hn : 0 ≤ cl.n) (hb : 0 < cl.b) (st : St ℚ EvalOut)
    (i : ℤ) (hi : 0 ≤ i ∧ i < cl.n) :
    (runHistory fastArith crop (fastEval L mask c) post c (2 * c) (2 * c) st (earlier ++ [cl])).out i
      = fastEval L mask c (windowCrop cl c i) := by
  unfold runHistory
  rw [List.foldl_append]
  exact outputs_overwritten fastArith C08.fast_good crop hcrop _ post c _ _ (fastEval_local L mask c hc)
    cl hfy hfx hn hb _ i hi

/-- the same for the block loop of the full-frame pipeline (the "frame" it crops from is the
frame-sized correlation map, recomputed from the frame buffer on every call) -/
theorem full_history_spec (crop : CropFn ℚ) (hcrop : Defining crop) (c : ℕ) (hc : 0 < c)
    (post : (ℤ → ℤ → ℚ) → (ℤ → ℤ → ℚ)) (earlier : List (Call ℚ)) (cl : Call ℚ)
    (hfy : 0 ≤ cl.fy) (hfx : 0 ≤ cl.fx) (hn : 0 ≤ cl.n) (hb : 0 < cl.b) (st : St ℚ EvalOut)
    (i : ℤ) (hi : 0 ≤ i ∧ i < cl.n) :
    (runHistory fullArith crop (fullEval c) post c (2 * c) (2 * c) st (earlier ++ [cl])).out i
      = fullEval c (windowCrop cl c i) := by
  unfold runHistory
  rw [List.foldl_append]
  exact outputs_overwritten fullArith C08.full_good crop hcrop _ post c _ _ (fullEval_local c hc)
    cl hfy hfx hn hb _ i hi

/-- both back-ends satisfy the hypothesis of the two theorems above -/
theorem backends_defining : Defining (pixelCrop (α := ℚ)) ∧ Defining (sliceCrop (α := ℚ)) :=
  ⟨pixelCrop_defining, sliceCrop_defining⟩


/-- **frame condition**: whatever the history of the run so far, a call never writes an output entry outside `[0, n)`
nor a buffer slot outside `[0, b)` (`n` peaks, `b` buffers): what lies behind the peak list / beyond the buffer stack of
this call keeps its previous content -/
theorem runStN_frame (A : BlockArith) (hA : C08.GoodArith A) (crop : CropFn α)
    (eval : (Int → Int → α) → β) (post : (Int → Int → α) → (Int → Int → α)) (c h w : Int)
    (cl : Call α) (hb : 0 < cl.b) (st : St α β) (m : Nat) :
    (∀ i, (i < 0 ∨ cl.n ≤ i) → (runStN A crop eval post c h w cl st m).out i = st.out i) ∧
    (∀ j y x, (j < 0 ∨ cl.b ≤ j) → (runStN A crop eval post c h w cl st m).bufs j y x = st.bufs j y x) := by
  induction m with
  | zero => exact ⟨fun _ _ => rfl, fun _ _ _ _ => rfl⟩
  | succ m ih =>
    obtain ⟨iho, ihb⟩ := ih
    have hs := hA.start_eq cl.n cl.b (m : Int)
    have he := hA.stop_eq cl.n cl.b (m : Int)
    have hm : (0 : Int) ≤ (m : Int) := Int.natCast_nonneg m
    have hs0 : 0 ≤ A.start cl.n cl.b (m : Int) := by rw [hs]; positivity
    constructor
    · intro i hi
      simp only [runStN, blockStepSt]
      rw [if_neg (by
        rintro ⟨h1, h2⟩
        rw [he] at h2
        have : i < cl.n := lt_of_lt_of_le h2 (min_le_right _ _)
        omega)]
      exact iho i hi
    · intro j y x hj
      simp only [runStN, blockStepSt]
      rw [if_neg (by
        rintro ⟨h1, h2, _⟩
        rw [hA.size_eq, hs, he] at h2
        have h3 : min (((m : Int) + 1) * cl.b) cl.n - (m : Int) * cl.b ≤ cl.b := by
          have := min_le_left (((m : Int) + 1) * cl.b) cl.n
          nlinarith
        omega)]
      exact ihb j y x hj

theorem processFrame_frame (A : BlockArith) (hA : C08.GoodArith A) (crop : CropFn α)
    (eval : (Int → Int → α) → β) (post : (Int → Int → α) → (Int → Int → α)) (c h w : Int)
    (st : St α β) (cl : Call α) (hb : 0 < cl.b) :
    (∀ i, (i < 0 ∨ cl.n ≤ i) → (processFrame A crop eval post c h w st cl).out i = st.out i) ∧
    (∀ j y x, (j < 0 ∨ cl.b ≤ j) → (processFrame A crop eval post c h w st cl).bufs j y x = st.bufs j y x) :=
  runStN_frame A hA crop eval post c h w cl hb st _

/-- Defect D1 (pre-repair): without the zero fill the slicing back-end is *not* defining, and a
two-call history leaks: the value left by the first frame shows up in the second result. -/
theorem leak_prefix_counterexample :
    ¬ Defining (sliceCropNoFill (α := Int)) := by
  intro h
  have := h (fun _ _ => 7) (fun y x => 6 * y + x + 1) 6 6 2 0 0 4 4 0 0
    (by decide) (by decide) (by decide) (by decide) (by decide) (by decide)
  revert this
  decide

end C09
