import BlobfinderModel.Properties.C09
import BlobfinderModel.Properties.C19
import BlobfinderModel.Properties.C03
import BlobfinderModel.Model.Udf
import BlobfinderModel.Properties.C05
/-!
# C10 — correlation UDFs equal the stand-alone result under any partitioning / tiling  (partial)

Against the UDF *protocol* of `harness/stubs/libertem` (assumption A-LT; LiberTEM itself is absent).
Proved: for every schedule (grouping of frames into partitions, order inside partitions, order of
partitions) the stored result of a frame is the per-frame result, provided the per-frame output does
not depend on the task data left by earlier frames — which is C09's theorem for the crop buffers;
what is passed to the frame routines (rounded peaks + rounded zero shift, task-data buffers, byte
limit → buffer count, crop function by back-end) is pinned to the source; C08 / C13 make the buffer
count and the crop back-end irrelevant.  Sparse UDF: the accumulated tile sums decompose exactly
when every tile sees the frame minimum (`sparse_tiling_indep_partial`); otherwise they do not —
`sparse_tiling_counterexample` is **known finding D10**.
-/
namespace C10
open Model

/-- per-frame results of a partition do not depend on its earlier frames when the output of a frame
is independent of the incoming task data -/
theorem runPartition_spec {τ ρ : Type} (init : τ) (perFrame : τ → ℕ → τ × ρ)
    (hind : ∀ t t' f, (perFrame t f).2 = (perFrame t' f).2) (part : List ℕ) :
    ∀ (res : ℕ → Option ρ) (t : τ) (f : ℕ),
      runPartition init perFrame res part t f
        = if f ∈ part then some (perFrame init f).2 else res f := by
  induction part with
  | nil => intro res t f; simp [runPartition]
  | cons g rest ih =>
    intro res t f
    rw [runPartition]
    simp only []
    rw [ih]
    by_cases hfr : f ∈ rest
    · simp [hfr]
    · simp only [hfr, if_false, List.mem_cons, or_false]
      by_cases hfg : f = g
      · subst hfg; simp [hind t init f]
      · simp [hfg]

/-- **Schedule independence**: whatever the partitioning and the processing order, every frame that is
processed gets exactly its stand-alone per-frame result; other slots are untouched. -/
theorem sched_result {τ ρ : Type} (init : τ) (perFrame : τ → ℕ → τ × ρ)
    (hind : ∀ t t' f, (perFrame t f).2 = (perFrame t' f).2) (sched : List (List ℕ)) :
    ∀ (res : ℕ → Option ρ) (f : ℕ),
      runSchedule init perFrame sched res f
        = if f ∈ sched.flatten then some (perFrame init f).2 else res f := by
  induction sched with
  | nil => intro res f; simp [runSchedule]
  | cons part rest ih =>
    intro res f
    rw [runSchedule, ih, runPartition_spec init perFrame hind]
    simp only [List.flatten_cons, List.mem_append]
    by_cases h1 : f ∈ rest.flatten <;> by_cases h2 : f ∈ part <;> simp [h1, h2]

/-- two schedules covering the same frames give the same results -/
theorem schedule_irrelevant {τ ρ : Type} (init : τ) (perFrame : τ → ℕ → τ × ρ)
    (hind : ∀ t t' f, (perFrame t f).2 = (perFrame t' f).2) (s1 s2 : List (List ℕ))
    (hsame : ∀ f, f ∈ s1.flatten ↔ f ∈ s2.flatten) (res : ℕ → Option ρ) :
    runSchedule init perFrame s1 res = runSchedule init perFrame s2 res := by
  funext f
  rw [sched_result init perFrame hind, sched_result init perFrame hind]
  by_cases h : f ∈ s1.flatten
  · rw [if_pos h, if_pos ((hsame f).mp h)]
  · rw [if_neg h, if_neg (fun h2 => h ((hsame f).mpr h2))]

/-- the hypothesis `hind` is what C09 proves for the frame routines on reused crop buffers -/
theorem frame_output_indep_taskdata {α β : Type} [OfNat α 0] (crop : CropFn α) (hc : C09.Defining crop)
    (eval : (ℤ → ℤ → α) → β) (post : (ℤ → ℤ → α) → (ℤ → ℤ → α)) (c h w : ℤ) (he : C09.EvalLocal eval h w)
    (cl : Call α) (hfy : 0 ≤ cl.fy) (hfx : 0 ≤ cl.fx) (hn : 0 ≤ cl.n) (hb : 0 < cl.b) (st st' : St α β) (i : ℤ)
    (hi : 0 ≤ i ∧ i < cl.n) :
    (processFrame fastArith crop eval post c h w st cl).out i
      = (processFrame fastArith crop eval post c h w st' cl).out i :=
  C09.step_out_indep_state fastArith C08.fast_good crop hc eval post c h w he cl hfy hfx hn hb st st' i hi

/-! ### The fast correlation UDF, concretely: schedule × buffers × pipeline composed -/

/-- peak list handed to the frame routine for frame `f`: rounded peaks + rounded zero shift of `f` -/
def udfPeaks (peaks : ℤ → ℚ × ℚ) (zs : ZeroShift) (f : ℕ) : ℤ → ℤ × ℤ :=
  fun i => (udfPeak (peaks i).1 (zs.get f).1, udfPeak (peaks i).2 (zs.get f).2)

/-- the result buffer of one frame: `n` entries (anything outside is not part of the buffer) -/
def frameResult (n : ℤ) (g : ℤ → EvalOut) : ℤ → Option EvalOut :=
  fun i => if 0 ≤ i ∧ i < n then some (g i) else none

/-- `FastCorrelationUDF.process_frame` on the partition's task data (crop buffers + output slots):
one call of the composed crop-based pipeline with the shifted peak list; `post` is whatever the
in-place stages leave in the buffers -/
def fastUdfStep (crop : CropFn ℚ) (L : ℚ → ℚ) (mask : ℤ → ℤ → ℚ) (c : ℕ) (post : (ℤ → ℤ → ℚ) → (ℤ → ℤ → ℚ))
    (frames : ℕ → ℤ → ℤ → ℚ) (fy fx : ℤ) (peaks : ℤ → ℚ × ℚ) (n b : ℤ) (zs : ZeroShift)
    (st : St ℚ EvalOut) (f : ℕ) : St ℚ EvalOut × (ℤ → Option EvalOut) :=
  let cl : Call ℚ := { frame := frames f, fy := fy, fx := fx, peaks := udfPeaks peaks zs f, n := n, b := b }
  let st' := processFrame fastArith crop (fastEval L mask c) post c (2 * c) (2 * c) st cl
  (st', frameResult n fun i => reanchor (st'.out i) (udfPeaks peaks zs f i).1 (udfPeaks peaks zs f i).2 c)

/-- the per-frame result does not depend on the task data it starts from, and equals the stand-alone
composed pipeline on that frame with the shifted peaks -/
theorem fastUdfStep_result (crop : CropFn ℚ) (hcrop : C09.Defining crop) (L : ℚ → ℚ) (mask : ℤ → ℤ → ℚ)
    (c : ℕ) (hc : 0 < c) (post : (ℤ → ℤ → ℚ) → (ℤ → ℤ → ℚ)) (frames : ℕ → ℤ → ℤ → ℚ) (fy fx : ℤ)
    (hfy : 0 ≤ fy) (hfx : 0 ≤ fx) (peaks : ℤ → ℚ × ℚ) (n b : ℤ) (hn : 0 ≤ n) (hb : 0 < b) (zs : ZeroShift)
    (st : St ℚ EvalOut) (f : ℕ) :
    (fastUdfStep crop L mask c post frames fy fx peaks n b zs st f).2
      = frameResult n fun i => fastPeak L mask (frames f) fy fx c (udfPeaks peaks zs f i) := by
  unfold fastUdfStep frameResult
  simp only []
  funext i
  by_cases hi : 0 ≤ i ∧ i < n
  · rw [if_pos hi, if_pos hi]
    congr 1
    have := C09.outputs_overwritten fastArith C08.fast_good crop hcrop (fastEval L mask c) post c (2 * c) (2 * c)
      (C09.fastEval_local L mask c hc)
      { frame := frames f, fy := fy, fx := fx, peaks := udfPeaks peaks zs f, n := n, b := b } hfy hfx hn hb st i hi
    rw [this, fastPeak_eq]
    congr 1
    apply fastEval_congr L mask c hc
    intro y x hy0 hy1 hx0 hx1
    unfold windowCrop
    simp only []
    rw [C13.cropPixel_eq_window]
  · rw [if_neg hi, if_neg hi]

/-- **C10 for the fast correlation UDF, model level**: for every schedule (any grouping of the frames
into partitions, any order), any crop back-end that defines its buffers, any buffer count and any
content the in-place stages leave behind, the stored result of every processed frame is the
stand-alone composed pipeline applied to that frame with the peak list `round(peaks) + round(zero
shift of that frame)`. -/
theorem fast_udf_schedule_result (crop : CropFn ℚ) (hcrop : C09.Defining crop) (L : ℚ → ℚ) (mask : ℤ → ℤ → ℚ)
    (c : ℕ) (hc : 0 < c) (post : (ℤ → ℤ → ℚ) → (ℤ → ℤ → ℚ)) (frames : ℕ → ℤ → ℤ → ℚ) (fy fx : ℤ)
    (hfy : 0 ≤ fy) (hfx : 0 ≤ fx) (peaks : ℤ → ℚ × ℚ) (n b : ℤ) (hn : 0 ≤ n) (hb : 0 < b) (zs : ZeroShift)
    (init : St ℚ EvalOut) (sched : List (List ℕ)) (res : ℕ → Option (ℤ → Option EvalOut)) (f : ℕ) :
    runSchedule init (fastUdfStep crop L mask c post frames fy fx peaks n b zs) sched res f
      = if f ∈ sched.flatten
        then some (frameResult n fun i => fastPeak L mask (frames f) fy fx c (udfPeaks peaks zs f i))
        else res f := by
  rw [sched_result init _ (fun t t' g => by
    rw [fastUdfStep_result crop hcrop L mask c hc post frames fy fx hfy hfx peaks n b hn hb zs t g,
      fastUdfStep_result crop hcrop L mask c hc post frames fy fx hfy hfx peaks n b hn hb zs t' g])]
  by_cases h : f ∈ sched.flatten
  · rw [if_pos h, if_pos h, fastUdfStep_result crop hcrop L mask c hc post frames fy fx hfy hfx peaks n b hn hb zs init f]
  · rw [if_neg h, if_neg h]

/-- rounding of peaks and zero shift is half-to-even on both; integers are left alone -/
theorem udf_peaks (p zs : ℤ) : udfPeak (p : ℚ) (zs : ℚ) = p + zs := by
  unfold udfPeak; rw [C05.round_int, C05.round_int]

/-- buffer count from the byte limit never matters (C08) and neither does the crop back-end (C13) -/
theorem limit_and_backend_irrelevant {α β : Type} [OfNat α 0] (f : ℤ → β) (peaks : ℤ → ℤ) (n b b' : ℤ)
    (hn : 0 ≤ n) (hb : 0 < b) (hb' : 0 < b') (out : ℤ → β)
    (old frame : ℤ → ℤ → α) (fy fx c p0 p1 h w y x : ℤ) (hfy : 0 ≤ fy) (hfx : 0 ≤ fx)
    (hy : 0 ≤ y) (hyh : y < h) (hx : 0 ≤ x) (hxw : x < w) :
    runBlocks fastArith f peaks n b out = runBlocks fastArith f peaks n b' out ∧
    runBlocks fullArith f peaks n b out = runBlocks fullArith f peaks n b' out ∧
    cropSlice old frame fy fx c p0 p1 h w y x = cropPixel frame fy fx c p0 p1 y x :=
  ⟨C08.buffer_count_irrelevant C08.fast_good f peaks n b b' hn hb hb' out,
   C08.buffer_count_irrelevant C08.full_good f peaks n b b' hn hb hb' out,
   C13.cropSlice_eq_cropPixel old frame fy fx c p0 p1 h w y x hfy hfx hy hyh hx hxw⟩

/-- sum over an exact cover by tiles = sum over the frame (the linear part of the sparse UDF) -/
theorem tile_sum_decomposes (g : ℕ → ℚ) (tiles : List (List ℕ)) :
    lsum (tiles.map fun t => lsum (t.map g)) = lsum (tiles.flatten.map g) := by
  simp only [lsum_eq_sum]
  induction tiles with
  | nil => simp
  | cons t rest ih => simp [List.map_append, List.sum_append, ih]

/-- **tiling independence of the sparse UDF, under the hypothesis that every tile contains a pixel
with the frame minimum** (then every tile log-scales with the frame minimum) -/
theorem sparse_tiling_indep_partial (L : ℚ → ℚ) (mask x : ℕ → ℚ) (tiles : List (List ℕ)) (m : ℚ)
    (hmin : ∀ t ∈ tiles, minList (t.map x) = m) :
    tiledDot L mask x tiles = lsum (tiles.flatten.map fun p => mask p * L (Gen.log_arg (x p) m)) := by
  unfold tiledDot
  rw [← tile_sum_decomposes]
  congr 1
  apply List.map_congr_left
  intro t ht
  unfold tileDot
  rw [hmin t ht]

/-- **Known finding D10**: without that hypothesis the result depends on the tiling — a frame with
pixels (0, 1), mask (1, 1) and `L = id`: one tile gives 3, two single-pixel tiles give 2. -/
theorem sparse_tiling_counterexample :
    tiledDot id (fun _ => 1) (fun p => if p = 0 then 0 else 1) [[0, 1]] = 3 ∧
    tiledDot id (fun _ => 1) (fun p => if p = 0 then 0 else 1) [[0], [1]] = 2 := by
  constructor <;> decide +kernel

/-- the sparse stack puts the mask centre on `peak + d` for every step offset `d` (C19 geometry) -/
theorem sparse_offset_center (peak d c : ℤ) (hc : 0 ≤ c) :
    Gen.sparse_offset peak d c + Gen.mask_center (Gen.sparse_size c) = peak + d := by
  unfold Gen.sparse_offset Gen.sparse_size
  rw [C16.mask_center_floor]; omega

end C10
