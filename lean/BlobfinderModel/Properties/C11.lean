import BlobfinderModel.Properties.C10
import BlobfinderModel.Properties.C17
/-!
# C11 — refinement and integration UDFs equal the library functions per frame  (partial)

Against the UDF protocol stand-in (A-LT).  Proved: schedule independence of the per-frame
refinement result (C10.sched_result: `postprocess` computes each frame's match from that frame's
correlation result only); the start zero handed to the matcher is `start_zero + zero_shift(frame)`
for absent, constant and per-frame zero shifts (repair of D11, source pinned); the refine wrapper
selects the lattice positions with margin `pattern.search` (C17) and dispatches exactly the
documented method names; the integration value is the sum of the frame over the mask centred on the
peak with zero outside the frame.  Matcher numerics inherit C05's residual.
-/
namespace C11
open Model

/-- the zero shift of a frame: none → (0,0); constant → that vector for every frame; AUX → per frame -/
theorem zero_shift_per_frame (v : V2) (pf : ℕ → V2) (f g : ℕ) :
    ZeroShift.none.get f = (0, 0) ∧ (ZeroShift.const v).get f = v ∧ (ZeroShift.const v).get f = (ZeroShift.const v).get g
      ∧ (ZeroShift.perFrame pf).get f = pf f := ⟨rfl, rfl, rfl, rfl⟩

/-- per-frame refinement results are independent of the partitioning (instance of C10.sched_result:
the refinement of a frame reads only that frame's correlation result and zero shift) -/
theorem refine_per_frame {ρ : Type} (refine : ℕ → ρ) (sched : List (List ℕ)) (res : ℕ → Option ρ) (f : ℕ)
    (hf : f ∈ sched.flatten) :
    runSchedule () (fun _ g => ((), refine g)) sched res f = some (refine f) := by
  rw [C10.sched_result () (fun _ g => ((), refine g)) (fun _ _ _ => rfl), if_pos hf]

/-- **which methods `run_refine` accepts**: exactly `fast`, `sparse`, `fullframe` × `fast`, `affine`;
everything else raises ValueError -/
theorem dispatch_total (s : String) :
    (Gen.dispatch_correlation s ≠ none ↔ (s = "fast" ∨ s = "sparse" ∨ s = "fullframe")) ∧
    (Gen.dispatch_match s ≠ none ↔ (s = "affine" ∨ s = "fast")) ∧
    Gen.dispatch_correlation "fast" = some "FastCorrelationUDF" ∧
    Gen.dispatch_correlation "sparse" = some "SparseCorrelationUDF" ∧
    Gen.dispatch_correlation "fullframe" = some "FullFrameCorrelationUDF" ∧
    Gen.dispatch_match "fast" = some "FastmatchMixin" ∧ Gen.dispatch_match "affine" = some "AffineMixin" := by
  refine ⟨?_, ?_, by decide, by decide, by decide, by decide, by decide⟩
  · unfold Gen.dispatch_correlation
    by_cases h1 : s = "fast" <;> by_cases h2 : s = "sparse" <;> by_cases h3 : s = "fullframe" <;> simp [h1, h2, h3]
  · unfold Gen.dispatch_match
    by_cases h1 : s = "affine" <;> by_cases h2 : s = "fast" <;> simp [h1, h2]

/-- the wrapper correlates exactly the lattice positions that keep a margin `r = pattern.search` from
the frame border, and returns their indices (C17.frame_peaks_spec with that margin) -/
theorem frame_peaks_margin (fy fx : ℚ) (zero a b : V2) (search : ℚ) (indices : List V2) (ij c : V2) :
    (ij, c) ∈ framePeaks fy fx zero a b search indices ↔
      ij ∈ indices ∧ c = calcCoord zero a b ij ∧
      (search ≤ c.1 ∧ c.1 < fy - search) ∧ (search ≤ c.2 ∧ c.2 < fx - search) :=
  C17.frame_peaks_spec fy fx zero a b search indices ij c

/-- **integration = sum of the frame over the mask centred on the peak, zero outside the frame**:
the crop of C13 times the `2c × 2c` mask (whose centre pixel `c = (2c)//2` sits on the peak) -/
theorem integration_eq_masked_sum (frame mask : ℤ → ℤ → ℚ) (fy fx c p0 p1 : ℤ) :
    lsum (flat (fun y x => cropPixel frame fy fx c p0 p1 y x * mask y x) (2 * c) (2 * c))
      = lsum (flat (fun y x => window frame fy fx (p0 - c + y) (p1 - c + x) * mask y x) (2 * c) (2 * c)) := by
  congr 1
  unfold flat
  apply List.flatMap_congr
  intro y _
  apply List.map_congr_left
  intro x _
  show cropPixel frame fy fx c p0 p1 y x * mask y x = window frame fy fx (p0 - c + y) (p1 - c + x) * mask y x
  rw [C13.cropPixel_eq_window]

/-- the mask centre `(2c)//2 = c` corresponds to the peak itself: window coordinate `p − c + c = p` -/
theorem integration_center (p c : ℤ) (hc : 0 ≤ c) : p - c + Gen.mask_center (2 * c) = p := by
  rw [C16.mask_center_floor]; omega

end C11
