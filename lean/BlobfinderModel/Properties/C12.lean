import BlobfinderModel.Properties.C06
import BlobfinderModel.Properties.C05
import BlobfinderModel.Model.Fullmatch
import BlobfinderModel.Model.Tumble
import BlobfinderModel.Proofs.FastExact
import BlobfinderModel.Proofs.AngleCheck
import BlobfinderModel.Proofs.Fom
/-!
# C12 — full matching partitions the peaks and returns self-consistent matches  (partial)

Proved for the control skeleton (any oracle for the best-match search, any number of iterations):
the weak set is exactly the peaks below `min_weight`; every other non-zero peak is either unmatched
or in exactly one match; weak non-zero peaks are in neither; the zero point is not reported as
unmatched once a match exists; each matching step removes the matched non-zero peaks from the
working set (progress measure).  The post-conditions of a returned match come from the final
`check` after the final `weighted_optimize` in `_tumble` (source pinned) together with C06.
One candidate pair of `_do_match` (`_match_all` + `_tumble`) is modelled in exact arithmetic
(`Model.tumble`, compared with the real `_tumble` on every run): its result passes `check`, has at
least `min_match` peaks of the working set, integer indices, and is the weighted least-squares fit
of its own peaks (`tumble_post`); from a candidate pair whose first round catches only node peaks
of a noise-free lattice it returns the exact lattice with all strong node peaks (`tumble_exact`).
**Not proved** (oracle only): that the figure of merit prefers that candidate, i.e. that a
noise-free lattice of ≤ 10 points is matched completely by the *first* match.
-/
namespace C12
open Model

theorem operators (e mw : ℚ) (n mm : ℤ) :
    (Gen.fullm_weight_ok e mw = true ↔ mw ≤ e) ∧ (Gen.fullm_continue n mm = true ↔ mm ≤ n) := by
  unfold Gen.fullm_weight_ok Gen.fullm_continue
  simp only [decide_eq_true_eq, ge_iff_le]
  trivial

/-- the weak set is exactly the complement of the weight filter -/
theorem weak_eq_filter (n : ℕ) (mm : ℤ) (filt zero : Sel) (methods : ℕ) (answers : List (Option Sel)) (k : ℕ) :
    (fullMatch n mm filt zero methods answers).weak k = !filt k := rfl

/-- loop invariant ⇒ result: for every non-zero peak `k`,
`filt k`: working k ⇒ in no match, ¬working k ⇒ in exactly one match; `¬filt k`: never working, in no match -/
def Inv (filt zero working : Sel) (ms : List Sel) : Prop :=
  ∀ k, zero k = false →
    (filt k = true → memberships ms k = if working k then 0 else 1) ∧
    (filt k = false → working k = false ∧ memberships ms k = 0)

theorem memberships_append (ms : List Sel) (s : Sel) (k : ℕ) :
    memberships (ms ++ [s]) k = memberships ms k + if s k then 1 else 0 := by
  unfold memberships
  rw [List.filter_append, List.length_append]
  simp only [List.filter_cons, List.filter_nil]
  split <;> simp

theorem inv_step (filt zero working sel : Sel) (ms : List Sel) (h : Inv filt zero working ms) :
    Inv filt zero (fun k => working k && !(sel k && working k))
      (ms ++ [fun k => sel k && working k]) := by
  intro k hz
  have hk := h k hz
  constructor
  · intro hf
    have := hk.1 hf
    rw [memberships_append, this]
    cases hw : working k <;> cases hs : sel k <;> simp [hw, hs]
  · intro hf
    have := hk.2 hf
    rw [memberships_append, this.2]
    simp [this.1]

theorem inv_readd_zero (filt zero working : Sel) (ms : List Sel) (h : Inv filt zero working ms) :
    Inv filt zero (fun k => working k || zero k) ms := by
  intro k hz
  have hk := h k hz
  simp only [hz, Bool.or_false]
  exact hk

/-- the invariant is preserved by the whole loop, whatever the oracle answers -/
theorem fmLoop_inv (n : ℕ) (mm : ℤ) (filt zero : Sel) (answers : List (Option Sel)) :
    ∀ (working : Sel) (ms : List Sel) (methods : ℕ), Inv filt zero working ms →
      Inv filt zero (fmLoop n mm zero answers working ms methods).2 (fmLoop n mm zero answers working ms methods).1 := by
  induction answers with
  | nil => intro working ms methods h; exact h
  | cons a rest ih =>
    intro working ms methods h
    cases a with
    | none =>
      simp only [fmLoop]
      split
      · exact h
      · exact ih working ms (methods - 1) h
    | some sel =>
      simp only [fmLoop]
      split
      · exact ih _ _ methods (inv_readd_zero _ _ _ _ (inv_step filt zero working sel ms h))
      · exact inv_step filt zero working sel ms h

/-- **Partition**: every peak that is neither weak nor the zero point is either unmatched (and in no
match) or in exactly one match, never both; weak non-zero peaks are in neither. -/
theorem partition (n : ℕ) (mm : ℤ) (filt zero : Sel) (methods : ℕ) (answers : List (Option Sel)) (k : ℕ)
    (hz : zero k = false) :
    let r := fullMatch n mm filt zero methods answers
    (filt k = true → (r.unmatched k = true ∧ memberships r.ms k = 0) ∨ (r.unmatched k = false ∧ memberships r.ms k = 1)) ∧
    (filt k = false → r.unmatched k = false ∧ memberships r.ms k = 0) := by
  have h0 : Inv filt zero filt [] := by
    intro k' _
    constructor
    · intro hf; simp [memberships, hf]
    · intro hf; exact ⟨hf, rfl⟩
  have hinv := fmLoop_inv n mm filt zero answers filt [] methods h0 k hz
  simp only [fullMatch]
  have hun : (if (fmLoop n mm zero answers filt [] methods).1.isEmpty then (fmLoop n mm zero answers filt [] methods).2
      else fun k => (fmLoop n mm zero answers filt [] methods).2 k && !zero k) k
      = (fmLoop n mm zero answers filt [] methods).2 k := by
    split
    · rfl
    · simp [hz]
  rw [hun]
  constructor
  · intro hf
    have := hinv.1 hf
    cases hw : (fmLoop n mm zero answers filt [] methods).2 k
    · right; rw [hw] at this; simpa using this
    · left; rw [hw] at this; simpa using this
  · intro hf
    exact hinv.2 hf

/-- **the zero point is never reported as unmatched once a match was found** -/
theorem zero_not_unmatched (n : ℕ) (mm : ℤ) (filt zero : Sel) (methods : ℕ) (answers : List (Option Sel)) (k : ℕ)
    (hz : zero k = true) (hm : (fullMatch n mm filt zero methods answers).ms ≠ []) :
    (fullMatch n mm filt zero methods answers).unmatched k = false := by
  simp only [fullMatch] at hm ⊢
  have : (fmLoop n mm zero answers filt [] methods).1.isEmpty = false := by
    cases h : (fmLoop n mm zero answers filt [] methods).1 with
    | nil => exact absurd h hm
    | cons a t => rfl
  rw [this]
  simp [hz]

/-- a match only contains peaks of the working set at that time (so never a weak non-zero peak) -/
theorem match_within_working (sel working : Sel) (k : ℕ) (h : (fun k => sel k && working k) k = true) :
    working k = true := by
  simp only [Bool.and_eq_true] at h; exact h.2

/-- progress: a match that contains a non-zero working peak strictly shrinks the set of non-zero
working peaks (termination measure of the loop for `min_match ≥ 2` with a unique zero point) -/
theorem matched_step_decreases (n : ℕ) (zero working sel : Sel) (k : ℕ) (hk : k < n)
    (hz : zero k = false) (hw : working k = true) (hs : sel k = true) :
    countSel n (fun j => (working j && !(sel j && working j)) && !zero j)
      < countSel n (fun j => working j && !zero j) := by
  unfold countSel
  have hsub : ∀ j, (working j && !(sel j && working j) && !zero j) = true → (working j && !zero j) = true := by
    intro j hj
    simp only [Bool.and_eq_true, Bool.not_eq_true'] at hj ⊢
    exact ⟨hj.1.1, hj.2⟩
  have hkmem : k ∈ List.range n := List.mem_range.mpr hk
  have h1 : (working k && !zero k) = true := by simp [hw, hz]
  have h2 : (working k && !(sel k && working k) && !zero k) = false := by simp [hw, hs]
  induction n with
  | zero => omega
  | succ m ih =>
    rw [List.range_succ, List.filter_append, List.filter_append, List.length_append, List.length_append]
    by_cases hkm : k = m
    · subst hkm
      simp only [List.filter_cons, List.filter_nil, h1, h2, if_true, Bool.false_eq_true, if_false]
      have : ((List.range k).filter fun j => working j && !(sel j && working j) && !zero j).length
          ≤ ((List.range k).filter fun j => working j && !zero j).length := by
        apply List.Sublist.length_le
        apply List.monotone_filter_right
        exact hsub
      simp only [List.length_nil, List.length_cons]
      omega
    · have hlt : k < m := by omega
      have := ih hlt (List.mem_range.mpr hlt)
      have hlast : ([m].filter fun j => working j && !(sel j && working j) && !zero j).length
          ≤ ([m].filter fun j => working j && !zero j).length := by
        apply List.Sublist.length_le
        apply List.monotone_filter_right
        exact hsub
      omega

/-- post-conditions of every returned match: `_tumble` ends with `weighted_optimize` followed by
`check` (≥ min_match peaks, both vector lengths within [min_delta, max_delta], angle ≥ min_angle),
and the best match is one of those; by C06 the parameters are the weighted least-squares fit of
the match's own peaks; `_match_all` assigns rounded (integer) indices (C05 wiring). -/
theorem match_postconditions :
    Gen.tumble_body = "if not self.check(match): return None ; match = match.weighted_optimize() ; if not self.check(match): return None ; match = self._match_all(point_selection=point_selection, zero=match.zero, a=match.a, b=match.b) ; if not self.check(match): return None ; match = match.weighted_optimize() ; if not self.check(match): return None else: return match"
    ∧ Gen.check_body = "if len(match) < self.min_match: return False ; papb = make_polar(np.array([match.a, match.b])) ; if len(size_filter(papb, self.min_delta, self.max_delta)) != 2: return False ; return angle_check(papb[0:1], papb[1:2], self.min_angle)"
    ∧ Gen.best_body = "if match_list: return max(match_list, key=fom) else: return None"
    ∧ (∀ len lo hi : ℚ, Gen.size_ok len lo hi = true ↔ (lo ≤ len ∧ len ≤ hi))
    ∧ (∀ d lim pi : ℚ, Gen.angle_ok d lim pi = true ↔ (lim < d ∧ d < pi - lim))
    ∧ Gen.angle_diff_expr = "np.absolute(p1[:, 1] - p2[:, 1]) % np.pi" := by
  refine ⟨rfl, rfl, rfl, ?_, ?_, rfl⟩
  · intro len lo hi; unfold Gen.size_ok; simp
  · intro d lim pi; unfold Gen.angle_ok; simp

/-- non-vacuity: 5 peaks, peak 0 = zero, peak 4 weak; one match {0,1,2}, then nothing -/
example :
    let r := fullMatch 5 2 (fun k => k < 4) (fun k => k == 0) 1
      [some (fun k => k ≤ 2), none]
    r.ms.length = 1 ∧ r.unmatched 3 = true ∧ r.unmatched 0 = false ∧ r.unmatched 1 = false ∧ r.weak 4 = true := by
  decide

/-! ### one candidate pair of `_do_match`: `_match_all` followed by `_tumble` -/

/-- `check`, spelled out: enough peaks, both lengths within `[min_delta, max_delta]`, and the angle
between the vectors (mod π) strictly between `min_angle` and `π - min_angle` -/
theorem check_char (P : CheckP) (n : ℕ) (a b : V2) :
    checkM P n a b = true ↔
      P.minMatch ≤ (n : ℤ) ∧ lenOk P (norm2 a) = true ∧ lenOk P (norm2 b) = true ∧
      P.sin2 * (norm2 a * norm2 b) < det2 a b * det2 a b := by
  unfold checkM
  simp only [Bool.and_eq_true, decide_eq_true_eq, and_assoc]

theorem lenOk_char (P : CheckP) (n2 : ℚ) :
    lenOk P n2 = true ↔ P.minD2 ≤ n2 ∧ (∀ m, P.maxD2 = some m → n2 ≤ m) := by
  unfold lenOk
  cases h : P.maxD2 with
  | none => simp
  | some m => simp

theorem countTrue_map (peaks : List Peak) (S : Peak → Bool) :
    countTrue (peaks.map S) = (peaks.filter S).length := by
  unfold countTrue
  induction peaks with
  | nil => simp
  | cons p t ih =>
    simp only [List.map_cons, List.filter_cons]
    cases S p <;> simp [ih]

/-- **post-conditions of every match `_tumble` returns**: it passes `check` (≥ `min_match` peaks,
lengths and angle in range), its peaks belong to the working selection, it has one integer index pair
per selected peak, and its lattice satisfies the weighted normal equations of its own peaks in both
coordinates (hence is their weighted least-squares optimum, `C06.lsq_optimal`). -/
theorem tumble_post (P : CheckP) (peaks : List Peak) (sel : List Bool) (tol : ℚ) (z a b z2 a2 b2 : V2)
    (m : List Bool) (idx : List (ℤ × ℤ)) (hlen : sel.length = peaks.length)
    (h : tumble P peaks sel tol z a b = .some z2 a2 b2 m idx) :
    checkM P (countTrue m) a2 b2 = true ∧ P.minMatch ≤ (countTrue m : ℤ) ∧
    m.length = peaks.length ∧ idx.length = countTrue m ∧
    (∀ k (hk : k < m.length), m[k] = true → ∃ hs : k < sel.length, sel[k] = true) ∧
    NormalEqs z2.1 a2.1 b2.1 (obsFor peaks m idx (·.1)) ∧
    NormalEqs z2.2 a2.2 b2.2 (obsFor peaks m idx (·.2)) := by
  unfold tumble at h
  cases hm0 : matchAll peaks sel z a b tol with
  | none => rw [hm0] at h; exact absurd h (by simp)
  | some r0 =>
    obtain ⟨m0, idx0⟩ := r0
    rw [hm0] at h
    simp only [] at h
    by_cases c0 : checkM P (countTrue m0) a b = true
    swap
    · simp [c0] at h
    simp only [c0, Bool.not_true, Bool.false_eq_true, if_false] at h
    cases hw1 : weightedOptimize peaks m0 idx0 with
    | none => rw [hw1] at h; exact absurd h (by simp)
    | some zab =>
      obtain ⟨z1, a1, b1⟩ := zab
      rw [hw1] at h
      simp only [] at h
      by_cases c1 : checkM P (countTrue m0) a1 b1 = true
      swap
      · simp [c1] at h
      simp only [c1, Bool.not_true, Bool.false_eq_true, if_false] at h
      cases h2 : matchAll peaks sel z1 a1 b1 tol with
      | none => rw [h2] at h; exact absurd h (by simp)
      | some r2 =>
        obtain ⟨m2, idx2⟩ := r2
        rw [h2] at h
        simp only [] at h
        by_cases c2 : checkM P (countTrue m2) a1 b1 = true
        swap
        · simp [c2] at h
        simp only [c2, Bool.not_true, Bool.false_eq_true, if_false] at h
        cases hw : weightedOptimize peaks m2 idx2 with
        | none => rw [hw] at h; exact absurd h (by simp)
        | some zab2 =>
          obtain ⟨zz, aa, bb⟩ := zab2
          rw [hw] at h
          simp only [] at h
          by_cases c3 : checkM P (countTrue m2) aa bb = true
          swap
          · simp [c3] at h
          simp only [c3, Bool.not_true, Bool.false_eq_true, if_false, TumbleResult.some.injEq] at h
          obtain ⟨rfl, rfl, rfl, rfl, rfl⟩ := h
          have hcounts := C05.matched_counts peaks sel z1 a1 b1 tol m2 idx2 h2 hlen
          refine ⟨c3, ((check_char P (countTrue m2) _ _).mp c3).1, hcounts.1, hcounts.2, ?_, ?_, ?_⟩
          · intro k hk hmk
            exact C05.matched_subset peaks sel z1 a1 b1 tol m2 idx2 h2 k hk hmk
          · unfold weightedOptimize at hw
            split at hw
            · rename_i zy ay by_ zx ax bx hy hx
              simp only [Option.some.injEq, Prod.mk.injEq] at hw
              obtain ⟨rfl, rfl, rfl⟩ := hw
              exact C06.cramer_solves_normal_eqs _ _ _ _ hy
            · exact absurd hw (by simp)
          · unfold weightedOptimize at hw
            split at hw
            · rename_i zy ay by_ zx ax bx hy hx
              simp only [Option.some.injEq, Prod.mk.injEq] at hw
              obtain ⟨rfl, rfl, rfl⟩ := hw
              exact C06.cramer_solves_normal_eqs _ _ _ _ hx
            · exact absurd hw (by simp)

/-- **a noise-free lattice is recovered exactly by `_tumble` from a working candidate pair**
(first iteration of the full match: the working selection is "elevation ≥ min_weight").  Hypotheses as in
`C05.fastmatch_exact_recovery` — node peaks lie exactly on the true lattice, other strong peaks are
rejected by it, whatever the candidate `(z0, a0, b0)` catches in its first round is a node peak with its
true indices, rank 3 — plus the three `check`s the procedure performs on the way that involve the
candidate and the true lattice.  Then the result is the exact lattice, exactly the strong node peaks,
their true indices: the match "contains all lattice points with error 0". -/
theorem tumble_exact (P : CheckP) (peaks : List Peak) (z a b z0 a0 b0 : V2) (tol mw : ℚ)
    (node : Peak → Option (ℤ × ℤ))
    (hd : det2 a b ≠ 0) (hd0 : det2 a0 b0 ≠ 0) (htol : 0 < tol) (hmw : 0 ≤ mw)
    (hnode : ∀ p ∈ peaks, ∀ i j, node p = some (i, j) → p.pos = calcCoord z a b ((i : ℚ), (j : ℚ)))
    (hout : ∀ p ∈ peaks, node p = none → mw ≤ p.elev → isMatched a b tol (ix z a b p) = false)
    (h1 : ∀ p ∈ peaks, mw ≤ p.elev → isMatched a0 b0 tol (ix z0 a0 b0 p) = true →
      node p = some (rix z0 a0 b0 p))
    (hrank : (normalOf ((peaks.filter (selBy (fun p => Gen.fm_weight_ok p.elev mw) z0 a0 b0 tol)).map
      fun p => ⟨((rix z0 a0 b0 p).1 : ℚ), ((rix z0 a0 b0 p).2 : ℚ), p.elev, 0⟩)).det ≠ 0)
    (hc0 : checkM P (peaks.filter (selBy (fun p => Gen.fm_weight_ok p.elev mw) z0 a0 b0 tol)).length a0 b0 = true)
    (hc1 : checkM P (peaks.filter (selBy (fun p => Gen.fm_weight_ok p.elev mw) z0 a0 b0 tol)).length a b = true)
    (hc2 : checkM P (peaks.filter (fun p => Gen.fm_weight_ok p.elev mw && (node p).isSome)).length a b = true) :
    tumble P peaks (peaks.map fun p => Gen.fm_weight_ok p.elev mw) tol z0 a0 b0
      = .some z a b (peaks.map fun p => Gen.fm_weight_ok p.elev mw && (node p).isSome)
          ((peaks.filter fun p => Gen.fm_weight_ok p.elev mw && (node p).isSome).map
            fun p => (node p).getD (0, 0)) := by
  obtain ⟨hfit1, hmap2, hfil2, hidx2, hfit2, _⟩ :=
    exact_stages peaks z a b z0 a0 b0 tol mw node hd htol hmw hnode hout h1 hrank
  unfold tumble
  rw [matchAll_eq peaks (fun p => Gen.fm_weight_ok p.elev mw) z0 a0 b0 tol hd0]
  simp only [countTrue_map, hc0, Bool.not_true, Bool.false_eq_true, if_false, hfit1, hc1]
  rw [matchAll_eq peaks (fun p => Gen.fm_weight_ok p.elev mw) z a b tol hd, hmap2, hfil2, hidx2]
  simp only [countTrue_map, hc2, Bool.not_true, Bool.false_eq_true, if_false, hfit2]

/-- non-vacuity, evaluated in the kernel: the 7-peak example of C05 (five strong node peaks of a 10 px square
lattice, a weak node peak, a half-cell outlier; candidate vectors off by ±1/5 px, zero point exact) through
`_match_all` + `_tumble` with `min_match = 3`, lengths in [5, 20] px and `sin²(min_angle) = 1/10` -/
example :
    tumble ⟨3, 25, some 400, 1 / 10⟩
      [⟨(0, 0), 1⟩, ⟨(10, 0), 2⟩, ⟨(5, 5), 3⟩, ⟨(0, 10), 1⟩, ⟨(20, 20), 0⟩, ⟨(10, 10), 1⟩, ⟨(20, 10), 2⟩]
      (([⟨(0, 0), 1⟩, ⟨(10, 0), 2⟩, ⟨(5, 5), 3⟩, ⟨(0, 10), 1⟩, ⟨(20, 20), 0⟩, ⟨(10, 10), 1⟩, ⟨(20, 10), 2⟩] : List Peak).map
        fun p => Gen.fm_weight_ok p.elev (1 / 10))
      3 (0, 0) (10 + 1 / 5, 0) (0, 10 - 1 / 5)
    = .some (0, 0) (10, 0) (0, 10) [true, true, false, true, false, true, true]
        [(0, 0), (1, 0), (0, 1), (1, 1), (2, 1)] := by
  decide +kernel

/-! ### `check` as written vs `check` as modelled (real numbers) -/

/-- **the angle test**: for vectors given by `make_polar` (`a = ra (sin α, cos α)` in `(y, x)` order) and
`0 ≤ min_angle ≤ π/2`, the test of `angle_check` — `|α - β| % π` strictly between `min_angle` and
`π - min_angle` (`Gen.angle_diff_expr`, `Gen.angle_ok`) — holds exactly when
`sin²(min_angle) ‖a‖²‖b‖² < det(a, b)²`, the form `Model.checkM` uses; in particular it is independent of the
orientation of the pair and of the branch cut of `arctan2` -/
theorem check_angle_bridge (ra rb α β lim : ℝ) (hra : 0 < ra) (hrb : 0 < rb) (hl0 : 0 ≤ lim)
    (hl1 : lim ≤ Real.pi / 2) :
    (lim < modPi |α - β| ∧ modPi |α - β| < Real.pi - lim) ↔
      Real.sin lim ^ 2 * (((ra * Real.sin α) ^ 2 + (ra * Real.cos α) ^ 2) * ((rb * Real.sin β) ^ 2 + (rb * Real.cos β) ^ 2))
        < ((ra * Real.sin α) * (rb * Real.cos β) - (rb * Real.sin β) * (ra * Real.cos α)) ^ 2 :=
  angle_check_iff ra rb α β lim hra hrb hl0 hl1

/-- Python's `%` with a positive modulus lands in `[0, π)` -/
theorem mod_pi_range (x : ℝ) : 0 ≤ modPi x ∧ modPi x < Real.pi := modPi_range x

/-- **the length test**: `min_delta ≤ ‖v‖ ≤ max_delta` ⇔ the comparison of squares (`0 ≤ min_delta, max_delta`) -/
theorem check_length_bridge (v1 v2 lo hi : ℝ) (hlo : 0 ≤ lo) (hhi : 0 ≤ hi) :
    (lo ≤ Real.sqrt (v1 ^ 2 + v2 ^ 2) ∧ Real.sqrt (v1 ^ 2 + v2 ^ 2) ≤ hi) ↔
      (lo ^ 2 ≤ v1 ^ 2 + v2 ^ 2 ∧ v1 ^ 2 + v2 ^ 2 ≤ hi ^ 2) :=
  length_check_iff v1 v2 lo hi hlo hhi

/-! ### the ranking of candidate matches (`fom`, real numbers) and the clause "the first match contains all lattice points" -/

/-- **the figure of merit as written is `(Σ elevations)² |det(a, b)| / (‖a‖² + ‖b‖²)`** -- the product of the point term, the
orthogonality term `|sin|` and the equal-length term of `Gen.fom_body`, with `np.linalg.norm` a square root -/
theorem fom_ranking_closed_form (S a0 a1 b0 b1 : ℝ) (ha : 0 < a0 * a0 + a1 * a1) (hb : 0 < b0 * b0 + b1 * b1) :
    fomWritten S a0 a1 b0 b1 = S ^ 2 * |a0 * b1 - a1 * b0| / (a0 * a0 + a1 * a1 + (b0 * b0 + b1 * b1)) :=
  fom_closed S a0 a1 b0 b1 ha hb

/-- **a full lattice outranks its index-2 sublattice along `a`** whenever the peaks of the sublattice carry at most `1/√2` of
the total elevation (`2 s² ≤ S²`), whatever the lengths of `a` and `b`: the equal-length term gains at most a factor 2.  With
uniform elevations a complete block of three (or five) columns has `s/S = 2/3` (`3/5`): the first match is the full lattice. -/
theorem full_lattice_outranks_sublattice (S s a0 a1 b0 b1 : ℝ) (ha : 0 < a0 * a0 + a1 * a1)
    (hb : 0 < b0 * b0 + b1 * b1) (hs : 2 * s ^ 2 ≤ S ^ 2) :
    fomWritten s (2 * a0) (2 * a1) b0 b1 ≤ fomWritten S a0 a1 b0 b1 := by
  have ha2 : 0 < 2 * a0 * (2 * a0) + 2 * a1 * (2 * a1) := by nlinarith
  rw [fom_closed s (2 * a0) (2 * a1) b0 b1 ha2 hb, fom_closed S a0 a1 b0 b1 ha hb]
  exact fom_full_ge_sublattice S s a0 a1 b0 b1 ha hb hs

/-- non-vacuity (uniform elevations, 6 of 9 and 6 of 10 peaks) -/
example : 2 * (6 : ℝ) ^ 2 ≤ 9 ^ 2 ∧ 2 * (6 : ℝ) ^ 2 ≤ 10 ^ 2 := by norm_num

/-- **the bound is sharp in kind (known finding D20)**: with `a = (7, 2)`, `b = (-9, 33)` and elevations of which the even
columns hold 17.3 of 18.9, the documented figure of merit of the sublattice `(2a, b)` exceeds that of the full lattice -- the
first match is then not the full lattice although the lattice is noise-free -/
theorem sublattice_outranks_witness :
    fomClosed (189 / 10) 7 2 (-9) 33 < fomClosed (173 / 10) 14 4 (-9) 33 := by
  unfold fomClosed
  norm_num [abs_of_pos]

end C12
