import BlobfinderModel.Properties.C06
import BlobfinderModel.Model.Fullmatch
/-!
# C12 — full matching partitions the peaks and returns self-consistent matches  (partial)

Proved for the control skeleton (any oracle for the best-match search, any number of iterations):
the weak set is exactly the peaks below `min_weight`; every other non-zero peak is either unmatched
or in exactly one match; weak non-zero peaks are in neither; the zero point is not reported as
unmatched once a match exists; each matching step removes the matched non-zero peaks from the
working set (progress measure).  The post-conditions of a returned match come from the final
`check` after the final `weighted_optimize` in `_tumble` (source pinned) together with C06.
**Not proved** (oracle only): that a noise-free lattice of ≤ 10 points is matched completely by the
first match (depends on the figure of merit and float geometry).
-/
namespace C12
open Model

theorem operators (e mw : ℚ) (n mm : ℤ) :
    (Gen.fullm_weight_ok e mw = true ↔ mw ≤ e) ∧ (Gen.fullm_continue n mm = true ↔ mm ≤ n) := by
  unfold Gen.fullm_weight_ok Gen.fullm_continue
  simp only [decide_eq_true_eq, ge_iff_le]
  trivial

/-- the weak set is exactly the complement of the weight filter -/
theorem weak_eq_filter (n : ℕ) (mm : ℤ) (filt zero : Sel) (methods : ℕ) (answers : List (Option Sel)) (k : ℕ) :
    (fullMatch n mm filt zero methods answers).weak k = !filt k := rfl

/-- loop invariant ⇒ result: for every non-zero peak `k`,
`filt k`: working k ⇒ in no match, ¬working k ⇒ in exactly one match; `¬filt k`: never working, in no match -/
def Inv (filt zero working : Sel) (ms : List Sel) : Prop :=
  ∀ k, zero k = false →
    (filt k = true → memberships ms k = if working k then 0 else 1) ∧
    (filt k = false → working k = false ∧ memberships ms k = 0)

theorem memberships_append (ms : List Sel) (s : Sel) (k : ℕ) :
    memberships (ms ++ [s]) k = memberships ms k + if s k then 1 else 0 := by
  unfold memberships
  rw [List.filter_append, List.length_append]
  simp only [List.filter_cons, List.filter_nil]
  split <;> simp

theorem inv_step (filt zero working sel : Sel) (ms : List Sel) (h : Inv filt zero working ms) :
    Inv filt zero (fun k => working k && !(sel k && working k))
      (ms ++ [fun k => sel k && working k]) := by
  intro k hz
  have hk := h k hz
  constructor
  · intro hf
    have := hk.1 hf
    rw [memberships_append, this]
    cases hw : working k <;> cases hs : sel k <;> simp [hw, hs]
  · intro hf
    have := hk.2 hf
    rw [memberships_append, this.2]
    simp [this.1]

theorem inv_readd_zero (filt zero working : Sel) (ms : List Sel) (h : Inv filt zero working ms) :
    Inv filt zero (fun k => working k || zero k) ms := by
  intro k hz
  have hk := h k hz
  simp only [hz, Bool.or_false]
  exact hk

/-- the invariant is preserved by the whole loop, whatever the oracle answers -/
theorem fmLoop_inv (n : ℕ) (mm : ℤ) (filt zero : Sel) (answers : List (Option Sel)) :
    ∀ (working : Sel) (ms : List Sel) (methods : ℕ), Inv filt zero working ms →
      Inv filt zero (fmLoop n mm zero answers working ms methods).2 (fmLoop n mm zero answers working ms methods).1 := by
  induction answers with
  | nil => intro working ms methods h; exact h
  | cons a rest ih =>
    intro working ms methods h
    cases a with
    | none =>
      simp only [fmLoop]
      split
      · exact h
      · exact ih working ms (methods - 1) h
    | some sel =>
      simp only [fmLoop]
      split
      · exact ih _ _ methods (inv_readd_zero _ _ _ _ (inv_step filt zero working sel ms h))
      · exact inv_step filt zero working sel ms h

/-- **Partition**: every peak that is neither weak nor the zero point is either unmatched (and in no
match) or in exactly one match, never both; weak non-zero peaks are in neither. -/
theorem partition (n : ℕ) (mm : ℤ) (filt zero : Sel) (methods : ℕ) (answers : List (Option Sel)) (k : ℕ)
    (hz : zero k = false) :
    let r := fullMatch n mm filt zero methods answers
    (filt k = true → (r.unmatched k = true ∧ memberships r.ms k = 0) ∨ (r.unmatched k = false ∧ memberships r.ms k = 1)) ∧
    (filt k = false → r.unmatched k = false ∧ memberships r.ms k = 0) := by
  have h0 : Inv filt zero filt [] := by
    intro k' _
    constructor
    · intro hf; simp [memberships, hf]
    · intro hf; exact ⟨hf, rfl⟩
  have hinv := fmLoop_inv n mm filt zero answers filt [] methods h0 k hz
  simp only [fullMatch]
  have hun : (if (fmLoop n mm zero answers filt [] methods).1.isEmpty then (fmLoop n mm zero answers filt [] methods).2
      else fun k => (fmLoop n mm zero answers filt [] methods).2 k && !zero k) k
      = (fmLoop n mm zero answers filt [] methods).2 k := by
    split
    · rfl
    · simp [hz]
  rw [hun]
  constructor
  · intro hf
    have := hinv.1 hf
    cases hw : (fmLoop n mm zero answers filt [] methods).2 k
    · right; rw [hw] at this; simpa using this
    · left; rw [hw] at this; simpa using this
  · intro hf
    exact hinv.2 hf

/-- **the zero point is never reported as unmatched once a match was found** -/
theorem zero_not_unmatched (n : ℕ) (mm : ℤ) (filt zero : Sel) (methods : ℕ) (answers : List (Option Sel)) (k : ℕ)
    (hz : zero k = true) (hm : (fullMatch n mm filt zero methods answers).ms ≠ []) :
    (fullMatch n mm filt zero methods answers).unmatched k = false := by
  simp only [fullMatch] at hm ⊢
  have : (fmLoop n mm zero answers filt [] methods).1.isEmpty = false := by
    cases h : (fmLoop n mm zero answers filt [] methods).1 with
    | nil => exact absurd h hm
    | cons a t => rfl
  rw [this]
  simp [hz]

/-- a match only contains peaks of the working set at that time (so never a weak non-zero peak) -/
theorem match_within_working (sel working : Sel) (k : ℕ) (h : (fun k => sel k && working k) k = true) :
    working k = true := by
  simp only [Bool.and_eq_true] at h; exact h.2

/-- progress: a match that contains a non-zero working peak strictly shrinks the set of non-zero
working peaks (termination measure of the loop for `min_match ≥ 2` with a unique zero point) -/
theorem matched_step_decreases (n : ℕ) (zero working sel : Sel) (k : ℕ) (hk : k < n)
    (hz : zero k = false) (hw : working k = true) (hs : sel k = true) :
    countSel n (fun j => (working j && !(sel j && working j)) && !zero j)
      < countSel n (fun j => working j && !zero j) := by
  unfold countSel
  have hsub : ∀ j, (working j && !(sel j && working j) && !zero j) = true → (working j && !zero j) = true := by
    intro j hj
    simp only [Bool.and_eq_true, Bool.not_eq_true'] at hj ⊢
    exact ⟨hj.1.1, hj.2⟩
  have hkmem : k ∈ List.range n := List.mem_range.mpr hk
  have h1 : (working k && !zero k) = true := by simp [hw, hz]
  have h2 : (working k && !(sel k && working k) && !zero k) = false := by simp [hw, hs]
  induction n with
  | zero => omega
  | succ m ih =>
    rw [List.range_succ, List.filter_append, List.filter_append, List.length_append, List.length_append]
    by_cases hkm : k = m
    · subst hkm
      simp only [List.filter_cons, List.filter_nil, h1, h2, if_true, Bool.false_eq_true, if_false]
      have : ((List.range k).filter fun j => working j && !(sel j && working j) && !zero j).length
          ≤ ((List.range k).filter fun j => working j && !zero j).length := by
        apply List.Sublist.length_le
        apply List.monotone_filter_right
        exact hsub
      simp only [List.length_nil, List.length_cons]
      omega
    · have hlt : k < m := by omega
      have := ih hlt (List.mem_range.mpr hlt)
      have hlast : ([m].filter fun j => working j && !(sel j && working j) && !zero j).length
          ≤ ([m].filter fun j => working j && !zero j).length := by
        apply List.Sublist.length_le
        apply List.monotone_filter_right
        exact hsub
      omega

/-- post-conditions of every returned match: `_tumble` ends with `weighted_optimize` followed by
`check` (≥ min_match peaks, both vector lengths within [min_delta, max_delta], angle ≥ min_angle),
and the best match is one of those; by C06 the parameters are the weighted least-squares fit of
the match's own peaks; `_match_all` assigns rounded (integer) indices (C05 wiring). -/
theorem match_postconditions :
    Gen.tumble_body = "if not self.check(match): return None ; match = match.weighted_optimize() ; if not self.check(match): return None ; match = self._match_all(point_selection=point_selection, zero=match.zero, a=match.a, b=match.b) ; if not self.check(match): return None ; match = match.weighted_optimize() ; if not self.check(match): return None else: return match"
    ∧ Gen.check_body = "if len(match) < self.min_match: return False ; papb = make_polar(np.array([match.a, match.b])) ; if len(size_filter(papb, self.min_delta, self.max_delta)) != 2: return False ; return angle_check(papb[0:1], papb[1:2], self.min_angle)"
    ∧ Gen.best_body = "if match_list: return max(match_list, key=fom) else: return None"
    ∧ (∀ len lo hi : ℚ, Gen.size_ok len lo hi = true ↔ (lo ≤ len ∧ len ≤ hi))
    ∧ (∀ d lim pi : ℚ, Gen.angle_ok d lim pi = true ↔ (lim < d ∧ d < pi - lim))
    ∧ Gen.angle_diff_expr = "np.absolute(p1[:, 1] - p2[:, 1]) % np.pi" := by
  refine ⟨rfl, rfl, rfl, ?_, ?_, rfl⟩
  · intro len lo hi; unfold Gen.size_ok; simp
  · intro d lim pi; unfold Gen.angle_ok; simp

/-- non-vacuity: 5 peaks, peak 0 = zero, peak 4 weak; one match {0,1,2}, then nothing -/
example :
    let r := fullMatch 5 2 (fun k => k < 4) (fun k => k == 0) 1
      [some (fun k => k ≤ 2), none]
    r.ms.length = 1 ∧ r.unmatched 3 = true ∧ r.unmatched 0 = false ∧ r.unmatched 1 = false ∧ r.weak 4 = true := by
  decide

end C12
