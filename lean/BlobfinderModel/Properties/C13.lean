import BlobfinderModel.Proofs.Crop
import Mathlib.Tactic.SplitIfs
/-!
# C13 — cropping returns the zero-padded window around each peak (both back-ends)

All theorems quantify over every frame size `fy fx ≥ 0`, every crop buffer size `h w ≥ 0`
(the code uses `h = w = 2 * crop_size`), every crop size `c`, every integer peak `(p0, p1)`,
every frame content and every previous buffer content `old`.
The scalar definitions in `Gen` are regenerated from the Python source on every run.
-/
namespace C13
open Model

variable {α : Type} [OfNat α 0]

/-- Per-pixel back-end: the cell `(y, x)` of the buffer is the frame value at row
`p0 - c + y`, column `p1 - c + x`, and zero wherever that lies outside the frame. -/
theorem cropPixel_eq_window (frame : Int → Int → α) (fy fx c p0 p1 y x : Int) :
    cropPixel frame fy fx c p0 p1 y x = window frame fy fx (p0 - c + y) (p1 - c + x) := by
  -- written to survive behaviour-preserving rewrites of the kernel (renamed locals, inlined or merged helpers, swapped
  -- branches): whatever integer-linear condition the generated cell uses, both sides are compared case by case
  unfold cropPixel Gen.crop_cell window
  simp only [Bool.or_eq_true, Bool.and_eq_true, decide_eq_true_eq]
  by_cases hin : 0 ≤ p0 - c + y ∧ p0 - c + y < fy ∧ 0 ≤ p1 - c + x ∧ p1 - c + x < fx
  · rw [if_pos hin]; split_ifs <;> first | (congr 1 <;> omega) | (exfalso; omega)
  · rw [if_neg hin]; split_ifs <;> first | rfl | (exfalso; omega)

/-- The per-pixel back-end never reads the frame outside `[0, fy) × [0, fx)`:
its result is unchanged by any modification of `frame` outside the frame. -/
theorem cropPixel_reads_in_bounds (frame frame' : Int → Int → α) (fy fx c p0 p1 y x : Int)
    (hagree : ∀ yy xx, 0 ≤ yy → yy < fy → 0 ≤ xx → xx < fx → frame yy xx = frame' yy xx) :
    cropPixel frame fy fx c p0 p1 y x = cropPixel frame' fy fx c p0 p1 y x := by
  rw [cropPixel_eq_window, cropPixel_eq_window]
  unfold window
  split
  · next h => exact hagree _ _ h.1 h.2.1 h.2.2.1 h.2.2.2
  · rfl

/-- Slicing back-end: the slice assignment is well-formed (target and source slices have
equal lengths on both axes), so NumPy neither raises nor broadcasts. -/
theorem cropSlice_shapes_ok (fy fx c p0 p1 h w : Int) (hfy : 0 ≤ fy) (hfx : 0 ≤ fx)
    (hh : 0 ≤ h) (hw : 0 ≤ w) :
    cropSliceShapesOk fy fx c p0 p1 h w = true := by
  simp only [cropSliceShapesOk, normBounds_closed fy fx c p0 p1 h w hh hw hfy hfx, sliceLen,
    Bool.and_eq_true, decide_eq_true_eq]
  omega

/-- The slice assignment stays inside the buffer and inside the frame: no out-of-bounds
read or write (the normalised bounds are within `[0, h] × [0, w]` and `[0, fy] × [0, fx]`). -/
theorem cropSlice_in_bounds (fy fx c p0 p1 h w : Int) (hfy : 0 ≤ fy) (hfx : 0 ≤ fx)
    (hh : 0 ≤ h) (hw : 0 ≤ w) :
    let n := normBounds fy fx c p0 p1 h w
    0 ≤ n.tyl ∧ n.tyl ≤ h ∧ 0 ≤ n.tyh ∧ n.tyh ≤ h ∧ 0 ≤ n.txl ∧ n.txl ≤ w ∧ 0 ≤ n.txh ∧ n.txh ≤ w ∧
    0 ≤ n.syl ∧ n.syl ≤ fy ∧ 0 ≤ n.syh ∧ n.syh ≤ fy ∧ 0 ≤ n.sxl ∧ n.sxl ≤ fx ∧ 0 ≤ n.sxh ∧ n.sxh ≤ fx := by
  simp only [normBounds_closed fy fx c p0 p1 h w hh hw hfy hfx]
  omega

/-- The code zero-fills each crop before the slice copy (repair of defect D1). -/
theorem slicing_zero_fills : Gen.sl_zero_fill = true := by decide

/-- Slicing back-end = window specification, element for element, for every previous
content `old` of the buffer. -/
theorem cropSlice_eq_window (old frame : Int → Int → α) (fy fx c p0 p1 h w y x : Int)
    (hfy : 0 ≤ fy) (hfx : 0 ≤ fx) (hy : 0 ≤ y) (hyh : y < h) (hx : 0 ≤ x) (hxw : x < w) :
    cropSlice old frame fy fx c p0 p1 h w y x
      = window frame fy fx (p0 - c + y) (p1 - c + x) := by
  have hh : 0 ≤ h := by omega
  have hw : 0 ≤ w := by omega
  simp only [cropSlice, cropSliceZ, slicing_zero_fills,
    normBounds_closed fy fx c p0 p1 h w hh hw hfy hfx, window, if_true]
  by_cases hin : 0 ≤ p0 - c + y ∧ p0 - c + y < fy ∧ 0 ≤ p1 - c + x ∧ p1 - c + x < fx
  · have e1 : min (max (p0 - c) 0) fy + (y - min (max (c - p0) 0) h) = p0 - c + y := by omega
    have e2 : min (max (p1 - c) 0) fx + (x - min (max (c - p1) 0) w) = p1 - c + x := by omega
    rw [if_pos hin, if_pos (by omega), e1, e2]
  · rw [if_neg hin, if_neg (by omega)]

/-- The two back-ends agree element for element, whatever the buffer held before. -/
theorem cropSlice_eq_cropPixel (old frame : Int → Int → α) (fy fx c p0 p1 h w y x : Int)
    (hfy : 0 ≤ fy) (hfx : 0 ≤ fx) (hy : 0 ≤ y) (hyh : y < h) (hx : 0 ≤ x) (hxw : x < w) :
    cropSlice old frame fy fx c p0 p1 h w y x = cropPixel frame fy fx c p0 p1 y x := by
  rw [cropSlice_eq_window old frame fy fx c p0 p1 h w y x hfy hfx hy hyh hx hxw,
    cropPixel_eq_window]

/-- A window entirely outside the frame yields an all-zero crop (both back-ends). -/
theorem crop_outside_zero (old frame : Int → Int → α) (fy fx c p0 p1 h w y x : Int)
    (hfy : 0 ≤ fy) (hfx : 0 ≤ fx) (hy : 0 ≤ y) (hyh : y < h) (hx : 0 ≤ x) (hxw : x < w)
    (hout : p0 - c + h ≤ 0 ∨ fy ≤ p0 - c ∨ p1 - c + w ≤ 0 ∨ fx ≤ p1 - c) :
    cropSlice old frame fy fx c p0 p1 h w y x = 0 ∧ cropPixel frame fy fx c p0 p1 y x = 0 := by
  rw [cropSlice_eq_cropPixel old frame fy fx c p0 p1 h w y x hfy hfx hy hyh hx hxw,
    cropPixel_eq_window]
  unfold window
  rw [if_neg (by omega)]
  exact ⟨rfl, rfl⟩

/-- Defect D1 (pre-repair code, `zf = false`): without the zero fill the result depends on the
previous buffer content — 6×6 frame, crop size 2, peak (0,0), cell (0,0) keeps the stale 7. -/
theorem cropSlice_prefix_counterexample :
    cropSliceZ (α := Int) false (fun _ _ => 7) (fun y x => 6 * y + x + 1) 6 6 2 0 0 4 4 0 0 = 7
    ∧ window (α := Int) (fun y x => 6 * y + x + 1) 6 6 (0 - 2 + 0) (0 - 2 + 0) = 0 := by
  decide

/-- Non-vacuity: the hypotheses of the theorems above are met by the unit-test geometry. -/
example : cropSlice (α := Int) (fun _ _ => 7) (fun y x => 6 * y + x + 1) 6 6 2 0 0 4 4 0 0 = 0
    ∧ cropSlice (α := Int) (fun _ _ => 7) (fun y x => 6 * y + x + 1) 6 6 2 0 0 4 4 2 3 = 2 := by
  decide

end C13
