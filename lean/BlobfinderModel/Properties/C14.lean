import BlobfinderModel.Properties.C04
import BlobfinderModel.Proofs.Pipeline
import BlobfinderModel.Proofs.Transpose
/-!
# C14 — equivariant to translation and axis swap, invariant to intensity offset
Exact arithmetic (ℚ); the logarithm is never evaluated: the statements are about its argument.
Residual (oracle only): float32 rounding under cyclic shifts of the full-frame method.  Transposition is
proved for maps with a unique maximiser (argmax tie-breaking is row-major, so ties are not mirror images).
-/
namespace C14
open Model

variable {α : Type} [OfNat α 0]

/-- **Translating frame content and peak by the same vector gives identical crops** as long as
both windows lie inside their frames (cell by cell, any crop size) -/
theorem crop_translate (frame : ℤ → ℤ → α) (fy fx c p0 p1 t0 t1 y x : ℤ)
    (hin : 0 ≤ p0 - c + y ∧ p0 - c + y < fy ∧ 0 ≤ p1 - c + x ∧ p1 - c + x < fx)
    (hin' : 0 ≤ p0 + t0 - c + y ∧ p0 + t0 - c + y < fy ∧ 0 ≤ p1 + t1 - c + x ∧ p1 + t1 - c + x < fx) :
    cropPixel (fun yy xx => frame (yy - t0) (xx - t1)) fy fx c (p0 + t0) (p1 + t1) y x
      = cropPixel frame fy fx c p0 p1 y x := by
  rw [C13.cropPixel_eq_window, C13.cropPixel_eq_window]
  unfold window
  rw [if_pos hin, if_pos hin']
  congr 1 <;> ring

/-- … and the results are re-anchored additively, so centres and refined positions move by the
translation while everything window-relative (height, elevation) is unchanged -/
theorem shift_translate (v anchor c t : ℤ) : Gen.shift v (anchor + t) c = Gen.shift v anchor c + t := by
  unfold Gen.shift; ring

/-- **adding a constant to all pixels changes nothing**: the minimum moves with it -/
theorem logscale_offset (x m k : ℚ) :
    Gen.log_arg (x + k) (m + k) = Gen.log_arg x m ∧
    Gen.cropbuf_log_arg (x + k) (Gen.cropbuf_m (m + k)) = Gen.cropbuf_log_arg x (Gen.cropbuf_m m) := by
  unfold Gen.log_arg Gen.cropbuf_log_arg Gen.cropbuf_m
  constructor <;> ring

/-- the minimum of shifted values is the shifted minimum (so `m + k` is indeed the new minimum) -/
theorem min_offset (l : List ℚ) (k : ℚ) (hne : l ≠ []) : minList (l.map (· + k)) = minList l + k := by
  cases l with
  | nil => exact absurd rfl hne
  | cons a t =>
    simp only [List.map_cons, minList]
    induction t generalizing a with
    | nil => simp
    | cons b t ih =>
      simp only [List.map_cons, List.foldl_cons]
      have : rmin (a + k) (b + k) = rmin a b + k := by unfold rmin; split_ifs <;> linarith
      rw [this]; exact ih (rmin a b) (by simp)

theorem mod_sub_mod (a b n : ℤ) : (a % n - b) % n = (a - b) % n := by
  rw [Int.sub_emod, Int.emod_emod_of_dvd _ (dvd_refl n), ← Int.sub_emod]

/-- **cyclic translation of the frame cyclically translates the full-frame correlation map**
(both shift kinds, every size) -/
theorem conv_roll (kind : String) (mask data : ℤ → ℤ → ℚ) (h w t0 t1 y x : ℤ) :
    corrMap kind mask (fun yy xx => data ((yy - t0) % h) ((xx - t1) % w)) h w y x
      = corrMap kind mask data h w ((y - t0) % h) ((x - t1) % w) := by
  unfold corrMap
  simp only []
  have key : ∀ (n j t m : ℤ), ((shiftSrc kind n j - m) % n - t) % n = (shiftSrc kind n ((j - t) % n) - m) % n := by
    intro n j t m
    unfold shiftSrc
    split
    · have e1 : (j + n / 2) % n - m - t = (j + n / 2) % n - (m + t) := by ring
      have e2 : (j - t) % n + n / 2 = (j - t) % n - (-(n / 2)) := by ring
      have e3 : (j - t) % n - -(n / 2) - m = (j - t) % n - (-(n / 2) + m) := by ring
      rw [mod_sub_mod, e1, mod_sub_mod, mod_sub_mod, e2, e3, mod_sub_mod]
      congr 1; ring
    · have e1 : (j - n / 2) % n - m - t = (j - n / 2) % n - (m + t) := by ring
      have e3 : (j - t) % n - n / 2 - m = (j - t) % n - (n / 2 + m) := by ring
      rw [mod_sub_mod, e1, mod_sub_mod, mod_sub_mod, e3, mod_sub_mod]
      congr 1; ring
  simp only [key]

/-- transposing the frame transposes the zero-padded window (the crop commutes with the axis swap) -/
theorem window_transpose (frame : ℤ → ℤ → α) (fy fx yy xx : ℤ) :
    window (fun a b => frame b a) fx fy xx yy = window frame fy fx yy xx := by
  unfold window
  by_cases h : 0 ≤ yy ∧ yy < fy ∧ 0 ≤ xx ∧ xx < fx
  · rw [if_pos h, if_pos ⟨h.2.2.1, h.2.2.2, h.1, h.2.1⟩]
  · rw [if_neg h, if_neg (fun hc => h ⟨hc.2.2.1, hc.2.2.2, hc.1, hc.2.1⟩)]

/-- the masks use `sig_shape[0]` for the y centre / size and `sig_shape[1]` for x with the same
centre expression on both axes (checked by the translator, see `Gen.mask_center`), and the
refinement radius and re-anchoring treat the two axes alike -/
theorem axes_alike (r y x h w : ℤ) : Model.refine_r r y x h w = Model.refine_r r x y w h := by
  unfold Model.refine_r; omega

/-! ### The composed pipelines (model level) -/

theorem flat_add_const (f : ℤ → ℤ → ℚ) (n m : ℤ) (k : ℚ) :
    flat (fun y x => f y x + k) n m = (flat f n m).map (· + k) := by
  unfold flat
  rw [List.map_flatMap]
  simp only [List.map_map]
  rfl

/-- **Translation equivariance of the crop-based method, end to end**: if the frame content and the
peak are translated by the same integer vector and the window lies inside the frame before and
after, the integer centre and the refined position move by that vector and height and elevation
are identical — exactly, for every mask, every logarithm, every crop size. -/
theorem fastPeak_translate (L : ℚ → ℚ) (mask frame : ℤ → ℤ → ℚ) (fy fx : ℤ) (c : ℕ) (hc : 0 < c)
    (p t : ℤ × ℤ)
    (hin : ∀ y x : ℤ, 0 ≤ y → y < 2 * c → 0 ≤ x → x < 2 * c →
      (0 ≤ p.1 - c + y ∧ p.1 - c + y < fy ∧ 0 ≤ p.2 - c + x ∧ p.2 - c + x < fx) ∧
      (0 ≤ p.1 + t.1 - c + y ∧ p.1 + t.1 - c + y < fy ∧ 0 ≤ p.2 + t.2 - c + x ∧ p.2 + t.2 - c + x < fx)) :
    let e := fastPeak L mask frame fy fx c p
    let e' := fastPeak L mask (fun yy xx => frame (yy - t.1) (xx - t.2)) fy fx c (p.1 + t.1, p.2 + t.2)
    e'.cy = e.cy + t.1 ∧ e'.cx = e.cx + t.2 ∧ e'.ry = e.ry + t.1 ∧ e'.rx = e.rx + t.2 ∧
    e'.height = e.height ∧ e'.elev2 = e.elev2 := by
  intro e e'
  have hev : fastEval L mask c (fun y x => cropPixel (fun yy xx => frame (yy - t.1) (xx - t.2)) fy fx c
        (p.1 + t.1) (p.2 + t.2) y x)
      = fastEval L mask c (fun y x => cropPixel frame fy fx c p.1 p.2 y x) := by
    apply fastEval_congr L mask c hc
    intro y x hy0 hy1 hx0 hx1
    obtain ⟨h1, h2⟩ := hin y x hy0 hy1 hx0 hx1
    exact crop_translate frame fy fx c p.1 p.2 t.1 t.2 y x h1 h2
  have he' : e' = reanchor (fastEval L mask c (fun y x => cropPixel frame fy fx c p.1 p.2 y x))
      (p.1 + t.1) (p.2 + t.2) c := by
    show fastPeak L mask _ fy fx c (p.1 + t.1, p.2 + t.2) = _
    rw [fastPeak_eq]; simp only []; rw [hev]
  have he : e = reanchor (fastEval L mask c (fun y x => cropPixel frame fy fx c p.1 p.2 y x)) p.1 p.2 c :=
    fastPeak_eq L mask frame fy fx c p
  rw [he', he]
  set ev := fastEval L mask c (fun y x => cropPixel frame fy fx c p.1 p.2 y x) with hevdef
  refine ⟨?_, ?_, ?_, ?_, rfl, rfl⟩
  · show Gen.shift ev.cy (p.1 + t.1) c = Gen.shift ev.cy p.1 c + t.1
    unfold Gen.shift; ring
  · show Gen.shift ev.cx (p.2 + t.2) c = Gen.shift ev.cx p.2 c + t.2
    unfold Gen.shift; ring
  · show ev.ry + ((Gen.shift 0 (p.1 + t.1) c : ℤ) : ℚ) = ev.ry + ((Gen.shift 0 p.1 c : ℤ) : ℚ) + (t.1 : ℚ)
    unfold Gen.shift; push_cast; ring
  · show ev.rx + ((Gen.shift 0 (p.2 + t.2) c : ℤ) : ℚ) = ev.rx + ((Gen.shift 0 p.2 c : ℤ) : ℚ) + (t.2 : ℚ)
    unfold Gen.shift; push_cast; ring

/-- the minimum over the frame is invariant under a cyclic roll (the pixels are only permuted) -/
theorem minList_flat_roll (frame : ℤ → ℤ → ℚ) (fy fx : ℕ) (hfy : 0 < fy) (hfx : 0 < fx) (t0 t1 : ℤ) :
    minList (flat (fun yy xx => frame ((yy - t0) % fy) ((xx - t1) % fx)) fy fx) = minList (flat frame fy fx) := by
  apply minList_eq_of_mem_iff _ _ (flat_ne_nil _ fy fx hfy hfx)
  intro v
  rw [mem_flat, mem_flat]
  have hy : (0 : ℤ) < fy := by exact_mod_cast hfy
  have hx : (0 : ℤ) < fx := by exact_mod_cast hfx
  constructor
  · rintro ⟨y, x, _, _, rfl⟩
    exact ⟨(y - t0) % fy, (x - t1) % fx, ⟨Int.emod_nonneg _ (by omega), Int.emod_lt_of_pos _ hy⟩,
      ⟨Int.emod_nonneg _ (by omega), Int.emod_lt_of_pos _ hx⟩, rfl⟩
  · rintro ⟨y, x, hy', hx', rfl⟩
    refine ⟨(y + t0) % fy, (x + t1) % fx, ⟨Int.emod_nonneg _ (by omega), Int.emod_lt_of_pos _ hy⟩,
      ⟨Int.emod_nonneg _ (by omega), Int.emod_lt_of_pos _ hx⟩, ?_⟩
    have e1 : ((y + t0) % fy - t0) % fy = y := by
      rw [mod_sub_mod]; simp only [add_sub_cancel_right]; exact Int.emod_eq_of_lt hy'.1 hy'.2
    have e2 : ((x + t1) % fx - t1) % fx = x := by
      rw [mod_sub_mod]; simp only [add_sub_cancel_right]; exact Int.emod_eq_of_lt hx'.1 hx'.2
    rw [e1, e2]

/-- **Cyclic translation equivariance of the full-frame method, end to end (exact arithmetic)**: rolling
the frame content cyclically by `t` and moving the peak by `t` moves centre and refined position by
`t` and leaves height and elevation unchanged, as long as the peak's window lies inside the frame
before and after (so that the window does not straddle the seam). -/
theorem fullPeak_cyclic_translate (L : ℚ → ℚ) (mask frame : ℤ → ℤ → ℚ) (fy fx : ℕ) (hfy : 0 < fy) (hfx : 0 < fx)
    (c : ℕ) (hc : 0 < c) (p t : ℤ × ℤ)
    (hin : ∀ y x : ℤ, 0 ≤ y → y < 2 * c → 0 ≤ x → x < 2 * c →
      (0 ≤ p.1 - c + y ∧ p.1 - c + y < fy ∧ 0 ≤ p.2 - c + x ∧ p.2 - c + x < fx) ∧
      (0 ≤ p.1 + t.1 - c + y ∧ p.1 + t.1 - c + y < fy ∧ 0 ≤ p.2 + t.2 - c + x ∧ p.2 + t.2 - c + x < fx)) :
    let e := fullPeak L mask frame fy fx c p
    let e' := fullPeak L mask (fun yy xx => frame ((yy - t.1) % fy) ((xx - t.2) % fx)) fy fx c (p.1 + t.1, p.2 + t.2)
    e'.cy = e.cy + t.1 ∧ e'.cx = e.cx + t.2 ∧ e'.ry = e.ry + t.1 ∧ e'.rx = e.rx + t.2 ∧
    e'.height = e.height ∧ e'.elev2 = e.elev2 := by
  intro e e'
  -- the log-scaled rolled frame is the rolled log-scaled frame
  have hlog : logFrame L (fun yy xx => frame ((yy - t.1) % fy) ((xx - t.2) % fx)) fy fx
      = fun yy xx => logFrame L frame fy fx ((yy - t.1) % fy) ((xx - t.2) % fx) := by
    funext yy xx
    unfold logFrame
    rw [minList_flat_roll frame fy fx hfy hfx]
  -- hence the frame-sized correlation map is rolled
  have hcorr : ∀ y x : ℤ, fullCorr L mask (fun yy xx => frame ((yy - t.1) % fy) ((xx - t.2) % fx)) fy fx y x
      = fullCorr L mask frame fy fx ((y - t.1) % fy) ((x - t.2) % fx) := by
    intro y x
    unfold fullCorr
    rw [hlog]
    exact conv_roll _ mask (logFrame L frame fy fx) fy fx t.1 t.2 y x
  -- the windows of the two problems agree cell by cell
  have hev : fullEval c (fun y x => cropPixel (fullCorr L mask (fun yy xx => frame ((yy - t.1) % fy) ((xx - t.2) % fx)) fy fx)
        fy fx c (p.1 + t.1) (p.2 + t.2) y x)
      = fullEval c (fun y x => cropPixel (fullCorr L mask frame fy fx) fy fx c p.1 p.2 y x) := by
    apply fullEval_congr c hc
    intro y x hy0 hy1 hx0 hx1
    obtain ⟨h1, h2⟩ := hin y x hy0 hy1 hx0 hx1
    simp only []
    rw [C13.cropPixel_eq_window, C13.cropPixel_eq_window]
    unfold window
    rw [if_pos h2, if_pos h1, hcorr]
    have e1 : (p.1 + t.1 - c + y - t.1) % (fy : ℤ) = p.1 - c + y := by
      have : p.1 + t.1 - c + y - t.1 = p.1 - c + y := by ring
      rw [this]; exact Int.emod_eq_of_lt h1.1 h1.2.1
    have e2 : (p.2 + t.2 - c + x - t.2) % (fx : ℤ) = p.2 - c + x := by
      have : p.2 + t.2 - c + x - t.2 = p.2 - c + x := by ring
      rw [this]; exact Int.emod_eq_of_lt h1.2.2.1 h1.2.2.2
    rw [e1, e2]
  have he' : e' = reanchor (fullEval c (fun y x => cropPixel (fullCorr L mask frame fy fx) fy fx c p.1 p.2 y x))
      (p.1 + t.1) (p.2 + t.2) c := by
    show fullPeak L mask _ fy fx c (p.1 + t.1, p.2 + t.2) = _
    rw [fullPeak_eq]; simp only []; rw [hev]
  have he : e = reanchor (fullEval c (fun y x => cropPixel (fullCorr L mask frame fy fx) fy fx c p.1 p.2 y x)) p.1 p.2 c :=
    fullPeak_eq L mask frame fy fx c p
  rw [he', he]
  set ev := fullEval c (fun y x => cropPixel (fullCorr L mask frame fy fx) fy fx c p.1 p.2 y x)
  refine ⟨?_, ?_, ?_, ?_, rfl, rfl⟩
  · show Gen.shift ev.cy (p.1 + t.1) c = Gen.shift ev.cy p.1 c + t.1
    unfold Gen.shift; ring
  · show Gen.shift ev.cx (p.2 + t.2) c = Gen.shift ev.cx p.2 c + t.2
    unfold Gen.shift; ring
  · show ev.ry + ((Gen.shift 0 (p.1 + t.1) c : ℤ) : ℚ) = ev.ry + ((Gen.shift 0 p.1 c : ℤ) : ℚ) + (t.1 : ℚ)
    unfold Gen.shift; push_cast; ring
  · show ev.rx + ((Gen.shift 0 (p.2 + t.2) c : ℤ) : ℚ) = ev.rx + ((Gen.shift 0 p.2 c : ℤ) : ℚ) + (t.2 : ℚ)
    unfold Gen.shift; push_cast; ring

/-- **Offset invariance of the full-frame method, end to end, for every peak (also windows that
overlap the border)**: adding a constant to all pixels changes no output. -/
theorem fullPeak_offset (L : ℚ → ℚ) (mask frame : ℤ → ℤ → ℚ) (fy fx : ℕ) (hfy : 0 < fy) (hfx : 0 < fx)
    (c : ℤ) (p : ℤ × ℤ) (k : ℚ) :
    fullPeak L mask (fun y x => frame y x + k) fy fx c p = fullPeak L mask frame fy fx c p := by
  have hlog : logFrame L (fun y x => frame y x + k) fy fx = logFrame L frame fy fx := by
    funext y x
    unfold logFrame
    rw [flat_add_const, min_offset _ k (flat_ne_nil frame fy fx hfy hfx)]
    rw [(logscale_offset (frame y x) (minList (flat frame fy fx)) k).1]
  unfold fullPeak fullCorr
  rw [hlog]

/-- **Offset invariance of the crop-based method for a window inside the frame** (a window that
overlaps the border keeps its zero padding while the data moves, so the statement is about
windows inside the frame — the oracle uses the same precondition). -/
theorem fastPeak_offset (L : ℚ → ℚ) (mask frame : ℤ → ℤ → ℚ) (fy fx : ℤ) (c : ℕ) (hc : 0 < c) (p : ℤ × ℤ) (k : ℚ)
    (hin : ∀ y x : ℤ, 0 ≤ y → y < 2 * c → 0 ≤ x → x < 2 * c →
      0 ≤ p.1 - c + y ∧ p.1 - c + y < fy ∧ 0 ≤ p.2 - c + x ∧ p.2 - c + x < fx) :
    fastPeak L mask (fun y x => frame y x + k) fy fx c p = fastPeak L mask frame fy fx c p := by
  rw [fastPeak_eq, fastPeak_eq]
  congr 1
  unfold fastEval
  have hcast : (2 * (c : ℤ)) = ((2 * c : ℕ) : ℤ) := by push_cast; ring
  have hpos : 0 < 2 * c := by omega
  have hcropk : AgreeOn (fun y x => cropPixel (fun y x => frame y x + k) fy fx c p.1 p.2 y x)
      (fun y x => cropPixel frame fy fx c p.1 p.2 y x + k) (2 * c) (2 * c) := by
    intro y x hy0 hy1 hx0 hx1
    simp only []
    rw [C13.cropPixel_eq_window, C13.cropPixel_eq_window]
    unfold window
    have h := hin y x hy0 hy1 hx0 hx1
    rw [if_pos h, if_pos h]
  have hlog : AgreeOn (logCrop L (fun y x => cropPixel (fun y x => frame y x + k) fy fx c p.1 p.2 y x) (2 * c) (2 * c))
      (logCrop L (fun y x => cropPixel frame fy fx c p.1 p.2 y x) (2 * c) (2 * c)) (2 * c) (2 * c) := by
    intro y x hy0 hy1 hx0 hx1
    rw [logCrop_congr L _ _ (2 * c) (2 * c) hcropk y x hy0 hy1 hx0 hx1]
    unfold logCrop
    rw [flat_add_const]
    rw [hcast, min_offset _ k (flat_ne_nil _ (2 * c) (2 * c) hpos hpos)]
    rw [(logscale_offset _ _ k).2]
  rw [hcast] at hlog ⊢
  apply evaluate_congr _ _ (2 * c) (2 * c) hpos hpos
  intro y x _ _ _ _
  exact corrMap_congr _ mask _ _ _ _ (by exact_mod_cast hpos) (by exact_mod_cast hpos) hlog y x

/-- **Axis swap of the evaluation kernels** (any map with a unique maximiser, any size): centre and
refined position swap their coordinates, height and elevation are unchanged. -/
theorem evaluate_transposed (corr : ℤ → ℤ → ℚ) (n m : ℕ) (hn : 0 < n) (hm : 0 < m)
    (huniq : ∀ y x y' x' : ℤ, IsMaxAt corr n m y x → IsMaxAt corr n m y' x' → y = y' ∧ x = x') :
    (evaluate (fun y x => corr x y) m n).cy = (evaluate corr n m).cx ∧
    (evaluate (fun y x => corr x y) m n).cx = (evaluate corr n m).cy ∧
    (evaluate (fun y x => corr x y) m n).height = (evaluate corr n m).height ∧
    (evaluate (fun y x => corr x y) m n).ry = (evaluate corr n m).rx ∧
    (evaluate (fun y x => corr x y) m n).rx = (evaluate corr n m).ry ∧
    (evaluate (fun y x => corr x y) m n).elev2 = (evaluate corr n m).elev2 :=
  evaluate_transpose corr n m hn hm huniq

/-- **Axis swap of the crop-based method, end to end**: transposed frame, transposed mask, swapped
peak ⇒ swapped centre and refined position, same height and elevation (unique maximiser of the
window's correlation map). -/
theorem fastPeak_transposed (L : ℚ → ℚ) (mask frame : ℤ → ℤ → ℚ) (fy fx : ℤ) (c : ℕ) (hc : 0 < c) (p : ℤ × ℤ)
    (huniq : ∀ y x y' x' : ℤ, IsMaxAt (fastCorr L mask frame fy fx c p) (2 * c : ℕ) (2 * c : ℕ) y x →
      IsMaxAt (fastCorr L mask frame fy fx c p) (2 * c : ℕ) (2 * c : ℕ) y' x' → y = y' ∧ x = x') :
    let e := fastPeak L mask frame fy fx c p
    let e' := fastPeak L (fun a b => mask b a) (fun a b => frame b a) fx fy c (p.2, p.1)
    e'.cy = e.cx ∧ e'.cx = e.cy ∧ e'.height = e.height ∧ e'.ry = e.rx ∧ e'.rx = e.ry ∧ e'.elev2 = e.elev2 :=
  fastPeak_transpose L mask frame fy fx c hc p huniq

/-- the correlation map itself commutes with the axis swap for every size, both shift kinds -/
theorem corrMap_transposed (kind : String) (mask data : ℤ → ℤ → ℚ) (H W : ℕ) (y x : ℤ) :
    corrMap kind (fun a b => mask b a) (fun a b => data b a) W H x y = corrMap kind mask data H W y x :=
  corrMap_transpose kind mask data H W y x

/-- the uniqueness hypothesis is necessary: a 2×2 map with two equal maxima on the anti-diagonal is
evaluated to centre (0, 1), its transpose also to (0, 1) — not to the swapped (1, 0) -/
theorem transpose_tie_counterexample :
    let corr : ℤ → ℤ → ℚ := fun y x => if (y = 0 ∧ x = 1) ∨ (y = 1 ∧ x = 0) then 1 else 0
    ((evaluate corr 2 2).cy, (evaluate corr 2 2).cx) = (0, 1) ∧
    ((evaluate (fun y x => corr x y) 2 2).cy, (evaluate (fun y x => corr x y) 2 2).cx) = (0, 1) := by
  decide +kernel

/-- non-vacuity of `crop_translate`: 6×6 frame, crop size 1 -/
example : cropPixel (α := ℤ) (fun yy xx => (fun a b => 10 * a + b) (yy - 1) (xx - 2)) 6 6 1 (2 + 1) (1 + 2) 0 1
    = cropPixel (α := ℤ) (fun a b => 10 * a + b) 6 6 1 2 1 0 1 := by decide

end C14
