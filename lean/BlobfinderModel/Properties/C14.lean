import BlobfinderModel.Properties.C04
/-!
# C14 — equivariant to translation and axis swap, invariant to intensity offset
Exact arithmetic (ℚ); the logarithm is never evaluated: the statements are about its argument.
Residual (oracle only): float32 rounding under cyclic shifts of the full-frame method; transposition of
the complete evaluation (argmax tie-breaking is row-major, so it needs a unique maximum).
-/
namespace C14
open Model

variable {α : Type} [OfNat α 0]

/-- **Translating frame content and peak by the same vector gives identical crops** as long as
both windows lie inside their frames (cell by cell, any crop size) -/
theorem crop_translate (frame : ℤ → ℤ → α) (fy fx c p0 p1 t0 t1 y x : ℤ)
    (hin : 0 ≤ p0 - c + y ∧ p0 - c + y < fy ∧ 0 ≤ p1 - c + x ∧ p1 - c + x < fx)
    (hin' : 0 ≤ p0 + t0 - c + y ∧ p0 + t0 - c + y < fy ∧ 0 ≤ p1 + t1 - c + x ∧ p1 + t1 - c + x < fx) :
    cropPixel (fun yy xx => frame (yy - t0) (xx - t1)) fy fx c (p0 + t0) (p1 + t1) y x
      = cropPixel frame fy fx c p0 p1 y x := by
  rw [C13.cropPixel_eq_window, C13.cropPixel_eq_window]
  unfold window
  rw [if_pos hin, if_pos hin']
  congr 1 <;> ring

/-- … and the results are re-anchored additively, so centres and refined positions move by the
translation while everything window-relative (height, elevation) is unchanged -/
theorem shift_translate (v anchor c t : ℤ) : Gen.shift v (anchor + t) c = Gen.shift v anchor c + t := by
  unfold Gen.shift; ring

/-- **adding a constant to all pixels changes nothing**: the minimum moves with it -/
theorem logscale_offset (x m k : ℚ) :
    Gen.log_arg (x + k) (m + k) = Gen.log_arg x m ∧
    Gen.cropbuf_log_arg (x + k) (Gen.cropbuf_m (m + k)) = Gen.cropbuf_log_arg x (Gen.cropbuf_m m) := by
  unfold Gen.log_arg Gen.cropbuf_log_arg Gen.cropbuf_m
  constructor <;> ring

/-- the minimum of shifted values is the shifted minimum (so `m + k` is indeed the new minimum) -/
theorem min_offset (l : List ℚ) (k : ℚ) (hne : l ≠ []) : minList (l.map (· + k)) = minList l + k := by
  cases l with
  | nil => exact absurd rfl hne
  | cons a t =>
    simp only [List.map_cons, minList]
    induction t generalizing a with
    | nil => simp
    | cons b t ih =>
      simp only [List.map_cons, List.foldl_cons]
      have : rmin (a + k) (b + k) = rmin a b + k := by unfold rmin; split_ifs <;> linarith
      rw [this]; exact ih (rmin a b) (by simp)

theorem mod_sub_mod (a b n : ℤ) : (a % n - b) % n = (a - b) % n := by
  rw [Int.sub_emod, Int.emod_emod_of_dvd _ (dvd_refl n), ← Int.sub_emod]

/-- **cyclic translation of the frame cyclically translates the full-frame correlation map**
(both shift kinds, every size) -/
theorem conv_roll (kind : String) (mask data : ℤ → ℤ → ℚ) (h w t0 t1 y x : ℤ) :
    corrMap kind mask (fun yy xx => data ((yy - t0) % h) ((xx - t1) % w)) h w y x
      = corrMap kind mask data h w ((y - t0) % h) ((x - t1) % w) := by
  unfold corrMap
  simp only []
  have key : ∀ (n j t m : ℤ), ((shiftSrc kind n j - m) % n - t) % n = (shiftSrc kind n ((j - t) % n) - m) % n := by
    intro n j t m
    unfold shiftSrc
    split
    · have e1 : (j + n / 2) % n - m - t = (j + n / 2) % n - (m + t) := by ring
      have e2 : (j - t) % n + n / 2 = (j - t) % n - (-(n / 2)) := by ring
      have e3 : (j - t) % n - -(n / 2) - m = (j - t) % n - (-(n / 2) + m) := by ring
      rw [mod_sub_mod, e1, mod_sub_mod, mod_sub_mod, e2, e3, mod_sub_mod]
      congr 1; ring
    · have e1 : (j - n / 2) % n - m - t = (j - n / 2) % n - (m + t) := by ring
      have e3 : (j - t) % n - n / 2 - m = (j - t) % n - (n / 2 + m) := by ring
      rw [mod_sub_mod, e1, mod_sub_mod, mod_sub_mod, e3, mod_sub_mod]
      congr 1; ring
  simp only [key]

/-- transposing the frame transposes the zero-padded window (the crop commutes with the axis swap) -/
theorem window_transpose (frame : ℤ → ℤ → α) (fy fx yy xx : ℤ) :
    window (fun a b => frame b a) fx fy xx yy = window frame fy fx yy xx := by
  unfold window
  by_cases h : 0 ≤ yy ∧ yy < fy ∧ 0 ≤ xx ∧ xx < fx
  · rw [if_pos h, if_pos ⟨h.2.2.1, h.2.2.2, h.1, h.2.1⟩]
  · rw [if_neg h, if_neg (fun hc => h ⟨hc.2.2.1, hc.2.2.2, hc.1, hc.2.1⟩)]

/-- the masks use `sig_shape[0]` for the y centre / size and `sig_shape[1]` for x with the same
centre expression on both axes (checked by the translator, see `Gen.mask_center`), and the
refinement radius and re-anchoring treat the two axes alike -/
theorem axes_alike (r y x h w : ℤ) : Gen.refine_r r y x h w = Gen.refine_r r x y w h := by
  unfold Gen.refine_r; omega

/-- non-vacuity of `crop_translate`: 6×6 frame, crop size 1 -/
example : cropPixel (α := ℤ) (fun yy xx => (fun a b => 10 * a + b) (yy - 1) (xx - 2)) 6 6 1 (2 + 1) (1 + 2) 0 1
    = cropPixel (α := ℤ) (fun a b => 10 * a + b) 6 6 1 2 1 0 1 := by decide

end C14
