import BlobfinderModel.Properties.C03
import BlobfinderModel.Model.DType
import BlobfinderModel.Properties.C08
/-!
# C15 — frame dtype does not matter  (partial: integer-range logic)
Proved: frames are promoted to a float dtype *before* `x − min + 1` is formed (source pinned), the
promoted dtype is float32 for 8/16-bit integers and float64 for wider ones, and in that dtype the
log argument of integer data is represented exactly (no wrap-around, no rounding) for the whole range
of 8/16-bit types and for values up to 2²⁴ of wider types — so it equals what float64 input gives.
Residual (A-FLOAT, oracle): equality "to float32 rounding" of the results after log / FFT.
-/
namespace C15
open Model

/-- the promotion result is always a float dtype -/
theorem promoted_is_float (d : DType) : (promote d).isInt = false := by cases d <;> rfl

/-- where the cast happens: inside `log_scale` before the subtraction, and the crop buffers of the
crop-based batch entry point are allocated in the promoted dtype (repairs of D3) -/
theorem cast_before_subtract :
    Gen.log_dtype = "np.result_type(data.dtype, np.float32)" ∧
    (∀ x m : ℚ, Gen.log_arg x m = x - m + 1) ∧
    Gen.fast_crop_bufs_alloc = "correlation.allocate_crop_bufs(crop_size, len(peaks), np.result_type(frames.dtype, np.float32))" ∧
    Gen.full_frame_buf_alloc = "correlation.zeros(frames[0].shape, dtype=np.float32)" := by
  refine ⟨rfl, ?_, rfl, rfl⟩
  intro x m; unfold Gen.log_arg; ring

/-- **8- and 16-bit integer frames: for *all* values `v` and minima `m` of the dtype the log argument
`v − m + 1` is exactly representable in the promoted dtype (float32)** -/
theorem log_arg_exact_small (d : DType) (hd : d.isInt = true) (hb : d.bits ≤ 16) (v m : ℤ)
    (hv : d.lo ≤ v ∧ v ≤ d.hi) (hm : d.lo ≤ m ∧ m ≤ d.hi) (hmv : m ≤ v) :
    promote d = .f4 ∧ exactIn (promote d) (v - m + 1) ∧ 1 ≤ v - m + 1 := by
  cases d <;> simp_all [DType.isInt, DType.bits, DType.lo, DType.hi, DType.signed, promote, exactIn, mantissa] <;> omega

/-- wider integer frames with values up to 2²⁴ are promoted to float64, where the argument is exact -/
theorem log_arg_exact_wide (d : DType) (hd : d.isInt = true) (hb : 32 ≤ d.bits) (v m : ℤ)
    (hv : -(2 ^ 24 : ℤ) ≤ v ∧ v ≤ 2 ^ 24) (hm : -(2 ^ 24 : ℤ) ≤ m ∧ m ≤ 2 ^ 24) (hmv : m ≤ v) :
    promote d = .f8 ∧ exactIn (promote d) (v - m + 1) ∧ 1 ≤ v - m + 1 := by
  cases d <;> simp_all [DType.isInt, DType.bits, promote, exactIn, mantissa] <;> omega

/-- Defect D3 (pre-repair, arithmetic in the input dtype): `255 − 0 + 1` wraps to 0 in uint8 (log 0 =
−inf), `127 − (−128)` wraps in int8; after the cast nothing wraps -/
theorem uint8_prefix_counterexample :
    wrap .u1 (255 - 0 + 1) = 0 ∧ wrap .i1 (127 - (-128)) = -1 ∧ wrap .u2 (65535 - 0 + 1) = 0 := by decide

/-- values inside the range are not changed by storing them in the dtype -/
theorem wrap_id (d : DType) (hd : d.isInt = true) (v : ℤ) (hv : d.lo ≤ v ∧ v ≤ d.hi) : wrap d v = v := by
  cases d <;> simp_all [DType.isInt, DType.bits, DType.lo, DType.hi, DType.signed, wrap] <;> omega

/-- equal log arguments give equal centres: the evaluation only sees the log-scaled data (C03) -/
theorem same_arg_same_result (x m x' m' : ℚ) (h : x - m = x' - m') : Gen.log_arg x m = Gen.log_arg x' m' := by
  unfold Gen.log_arg; linarith

/-- **the frame dtype changes the number of blocks, not the results.**  `process_frames_fast` sizes its crop buffers from
the promoted dtype (`get_buf_count` with itemsize 4 for 8/16-bit and float32 frames, 8 for wider ones), so the same peak list
is processed in another number of blocks; for every per-peak function, every peak list and both item sizes the block loop
writes the same outputs (C08: the buffer count is irrelevant, and `get_buf_count` is always a valid one). -/
theorem blocks_of_dtype_irrelevant {α β : Type} (f : α → β) (peaks : Int → α) (n c limit : Int) (hn : 1 ≤ n)
    (out : Int → β) :
    runBlocks fastArith f peaks n (Gen.get_buf_count c n 4 limit) out
      = runBlocks fastArith f peaks n (Gen.get_buf_count c n 8 limit) out := by
  have h4 := (C08.buf_count_bounds c n 4 limit hn).1
  have h8 := (C08.buf_count_bounds c n 8 limit hn).1
  exact C08.buffer_count_irrelevant C08.fast_good f peaks n _ _ (by omega) (by omega) (by omega) out

/-! ### float32 crop buffers at the upper end of the stated range (values up to 2^24) -/

/-- **the log argument of a float32 crop buffer is exact**: for integer values `m ≤ x` of magnitude at most 2^24 whose
difference stays below 2^24, evaluating `(x - m) + 1` (the order written in `log_scale_cropbufs_inplace`,
`Gen.cropbuf_log_arg`) in float32 gives exactly `x - m + 1` — the same number the float64 route computes, so the two
routes take the logarithm of the same argument -/
theorem cropbuf_arg_exact_f32 (x m : ℤ) (hm : m ≤ x) (hx : x ≤ 2 ^ 24) (hm' : -(2 ^ 24 : ℤ) ≤ m)
    (hd : x - m < 2 ^ 24) : cropArgF32 x m = some (x - m + 1) := by
  unfold cropArgF32 f32int
  have h1 : -(2 ^ 24 : ℤ) ≤ x - m ∧ x - m ≤ 2 ^ 24 := by constructor <;> omega
  simp only [h1, and_self, if_true, Option.bind_some]
  have h2 : -(2 ^ 24 : ℤ) ≤ x - m + 1 ∧ x - m + 1 ≤ 2 ^ 24 := by constructor <;> omega
  simp only [h2, and_self, if_true]

/-- the written order agrees with the translated expression -/
theorem cropbuf_arg_order (x m : ℚ) : Gen.cropbuf_log_arg x m = (x - m) + 1 := rfl

/-- **the order matters**: with the 1 added to the data first, the value 2^24 on a minimum of 2^24 - 4 gives the argument 4
instead of 5 (`2^24 + 1` is not a float32) — which is why the source subtracts the minimum first -/
theorem plus_one_first_inexact :
    cropArgF32 (2 ^ 24) (2 ^ 24 - 4) = some 5 ∧ cropArgF32PlusFirst (2 ^ 24) (2 ^ 24 - 4) = some 4 := by
  decide +kernel

end C15
