import BlobfinderModel.Properties.C18
import BlobfinderModel.Model.Patterns
/-!
# C16 — pattern masks are centred, symmetric, bounded and balanced at every size
-/
namespace C16
open Model

theorem fdiv_two (n : ℤ) : Int.fdiv n 2 = n / 2 := Int.fdiv_eq_ediv_of_nonneg n (by decide)

/-- the built-in masks are centred on pixel `shape // 2` on both axes -/
theorem mask_center_floor (n : ℤ) : Gen.mask_center n = n / 2 := by
  unfold Gen.mask_center; exact fdiv_two n

/-- **User templates: `source // 2` is mapped onto `target // 2` for all parity combinations**
(repair of D5), for every source and target length ≥ 1. -/
theorem ut_center_maps (target source : ℤ) (ht : 1 ≤ target) (hs : 1 ≤ source) :
    utIndex target source (target / 2) = some (source / 2) := by
  unfold utIndex Gen.ut_is_pad Gen.ut_is_crop Gen.ut_before_after Gen.ut_extra_pad Gen.ut_extra_crop
  simp only [fdiv_two, decide_eq_true_eq]
  have hb : (if target / 2 - source / 2 < 0 then -(target / 2 - source / 2)
      else target / 2 - source / 2) = |target / 2 - source / 2| := by
    split
    · rw [abs_of_neg (by assumption)]
    · rw [abs_of_nonneg (by omega)]
  rw [hb]
  by_cases h1 : target > source
  · simp only [h1, if_true]
    rw [abs_of_nonneg (by omega), if_pos (by omega)]
    congr 1; omega
  · simp only [h1, if_false]
    by_cases h2 : target < source
    · simp only [h2, if_true]
      rw [abs_of_nonpos (by omega)]
      congr 1; omega
    · simp only [h2, if_false]
      have : target = source := by omega
      rw [this]

/-- pad / crop widths are non-negative and produce exactly the requested length -/
theorem ut_shape (target source : ℤ) (ht : 1 ≤ target) (hs : 1 ≤ source) :
    0 ≤ (utWidths target source).1 ∧ 0 ≤ (utWidths target source).2 ∧
    utLength target source = target := by
  unfold utWidths utLength Gen.ut_is_pad Gen.ut_is_crop Gen.ut_before_after Gen.ut_extra_pad
    Gen.ut_extra_crop
  simp only [fdiv_two, decide_eq_true_eq]
  have hb : (if target / 2 - source / 2 < 0 then -(target / 2 - source / 2)
      else target / 2 - source / 2) = |target / 2 - source / 2| := by
    split
    · rw [abs_of_neg (by assumption)]
    · rw [abs_of_nonneg (by omega)]
  rw [hb]
  by_cases h1 : target > source
  · simp only [h1, if_true]
    rw [abs_of_nonneg (by omega)]
    refine ⟨by omega, by omega, by omega⟩
  · simp only [h1, if_false]
    by_cases h2 : target < source
    · simp only [h2, if_true]
      rw [abs_of_nonpos (by omega)]
      refine ⟨by omega, by omega, by omega⟩
    · simp only [h2, if_false]
      exact ⟨le_refl _, le_refl _, by omega⟩

/-- **values are preserved on the overlap**: the map target index → source index is a pure shift
by `source // 2 - target // 2`, stays inside the source, and padding is zero exactly outside it. -/
theorem ut_values_preserved (target source i : ℤ) (ht : 1 ≤ target) (hs : 1 ≤ source)
    (hi : 0 ≤ i ∧ i < target) :
    let j := i + (source / 2 - target / 2)
    utIndex target source i = if 0 ≤ j ∧ j < source then some j else none := by
  unfold utIndex Gen.ut_is_pad Gen.ut_is_crop Gen.ut_before_after Gen.ut_extra_pad Gen.ut_extra_crop
  simp only [fdiv_two, decide_eq_true_eq]
  have hb : (if target / 2 - source / 2 < 0 then -(target / 2 - source / 2)
      else target / 2 - source / 2) = |target / 2 - source / 2| := by
    split
    · rw [abs_of_neg (by assumption)]
    · rw [abs_of_nonneg (by omega)]
  rw [hb]
  by_cases h1 : target > source
  · simp only [h1, if_true]
    rw [abs_of_nonneg (by omega)]
    have e : i - (target / 2 - source / 2) = i + (source / 2 - target / 2) := by omega
    rw [e]
  · simp only [h1, if_false]
    by_cases h2 : target < source
    · simp only [h2, if_true]
      rw [abs_of_nonpos (by omega), if_pos (by omega)]
      congr 1; omega
    · simp only [h2, if_false]
      have : target = source := by omega
      subst this
      rw [if_pos (by omega)]
      congr 1; omega

/-- Defect D5 (pre-repair: `before = extra // 2`): 5 → 8 pad puts the centre on 3, not 4. -/
theorem ut_prefix_counterexample : (8 - 5) / 2 + 5 / 2 = (3 : ℤ) ∧ (8 : ℤ) / 2 = 4 := by decide

/-- a radially symmetric mask about an integer centre is point-symmetric about it: the mirrored
pixel `2c - p` has the same squared distance -/
theorem radial_point_symmetric (cy cx y x : ℚ) :
    ((2 * cy - y) - cy) ^ 2 + ((2 * cx - x) - cx) ^ 2 = (y - cy) ^ 2 + (x - cx) ^ 2 := by ring

/-- the mirrored pixel of an in-image pixel about `shape // 2` is inside the image again for odd
sizes; for even sizes row / column 0 has no partner (the statement's symmetry is about the
remaining pixels) -/
theorem mirror_in_image (n y : ℤ) (hn : 1 ≤ n) (hy : 0 ≤ y ∧ y < n) (h0 : n % 2 = 1 ∨ 1 ≤ y) :
    0 ≤ 2 * Gen.mask_center n - y ∧ 2 * Gen.mask_center n - y < n := by
  rw [mask_center_floor]; omega

/-- antialiased disk: zero at distance ≥ radius + 1/2 (hence beyond outer radius + 1), values in [0,1] -/
theorem circular_support (radius r : ℚ) (hR : 1 ≤ radius) (c : Bool) (hr : radius + 1 / 2 ≤ r) :
    circularMask radius c r = 0 := by
  unfold circularMask
  have hp : patched 0 c r = false := by
    by_contra h
    have := C18.patch_conditions 0 c r (by simpa using h)
    linarith [this.2.1]
  simp only [hp, Bool.false_eq_true, if_false]
  unfold binVal binCenter Gen.bin_width
  simp only [Nat.cast_one, Int.cast_one, div_one, Nat.cast_zero, zero_mul, add_zero, sub_zero]
  have := binVal_eq_ramp_sub radius 0 r hR
  simp only [zero_add, sub_zero] at this ⊢
  rw [this, ramp_eq_one _ (by linarith), ramp_eq_one _ (by linarith)]; ring

theorem circular_range (radius r : ℚ) (c : Bool) :
    0 ≤ circularMask radius c r ∧ circularMask radius c r ≤ 1 := by
  unfold circularMask
  split
  · unfold Gen.patch_value; constructor <;> norm_num
  · exact ⟨bin_val_nonneg _ _ _, bin_val_le_one _ _ _⟩

/-- radial gradient: ≤ 1 everywhere, zero beyond radius + 1/2 (for `r > 0`) -/
theorem gradient_le_one (radius r : ℚ) (hR : 0 < radius) (hr : 0 ≤ r) : gradientMask radius r ≤ 1 := by
  unfold gradientMask Gen.rgbs_val
  simp only [Bool.and_eq_true, decide_eq_true_eq]
  split_ifs with h1 h2 h3
  · norm_num
  · rw [div_le_one (by norm_num)]; linarith [h2.1]
  · rw [div_le_one hR]; linarith
  · norm_num

theorem gradient_support (radius r : ℚ) (hR : 0 < radius) (hr : radius + 1 / 2 ≤ r) :
    gradientMask radius r = 0 := by
  unfold gradientMask Gen.rgbs_val
  simp only [Bool.and_eq_true, decide_eq_true_eq]
  rw [if_neg (by intro h; linarith [h.2]), if_neg (by intro h; linarith [h.2]), if_neg (by linarith)]

/-- background subtraction: the combination of disk and ring never exceeds 1 … -/
theorem bs_le_one (m1 m2 s1 s2 : ℚ) (h1 : m1 ≤ 1) (h2 : 0 ≤ m2) (hs1 : 0 ≤ s1) (hs2 : 0 < s2) :
    Gen.bs_combine m1 m2 s1 s2 ≤ 1 := by
  unfold Gen.bs_combine
  have : 0 ≤ m2 * s1 / s2 := div_nonneg (mul_nonneg h2 hs1) (le_of_lt hs2)
  linarith

/-- … **and sums to zero** over any set of pixels when the ring is not empty (`s2 ≠ 0`; the case
`s2 = 0` is the division by zero of known finding D13). -/
theorem bs_sum_zero {ι : Type} (px : List ι) (m1 m2 : ι → ℚ)
    (hs2 : (px.map m2).sum ≠ 0) :
    (px.map fun p => Gen.bs_combine (m1 p) (m2 p) (px.map m1).sum (px.map m2).sum).sum = 0 := by
  have key : ∀ (l : List ι) (s1 s2 : ℚ),
      (l.map fun p => Gen.bs_combine (m1 p) (m2 p) s1 s2).sum
        = (l.map m1).sum - (l.map m2).sum * s1 / s2 := by
    intro l s1 s2
    induction l with
    | nil => simp
    | cons a t ih =>
      simp only [List.map_cons, List.sum_cons, ih]
      unfold Gen.bs_combine; ring
  rw [key]
  field_simp
  ring

/-- crop size is `ceil(search)` -/
theorem crop_size_ceil (search : ℚ) :
    search ≤ (Gen.crop_size_of search : ℚ) ∧ (Gen.crop_size_of search : ℚ) < search + 1 := by
  unfold Gen.crop_size_of
  exact ⟨Rat.le_ceil, Rat.ceil_lt⟩

/-- inconsistent radii / search are rejected, consistent ones accepted -/
theorem ctor_guards (radius search outer : ℚ) :
    (Gen.circ_rejects radius search = true ↔ search < radius) ∧
    (Gen.rg_rejects radius search = true ↔ search < radius) ∧
    (Gen.bs_rejects radius search outer = true ↔ (outer ≤ radius ∨ search < outer)) ∧
    (Gen.rgbs_rejects radius search outer = true ↔ (outer ≤ radius ∨ search < outer)) := by
  unfold Gen.circ_rejects Gen.rg_rejects Gen.bs_rejects Gen.rgbs_rejects
  simp only [Bool.or_eq_true, decide_eq_true_eq]
  trivial

/-- the defaults are accepted by the guards (for a positive radius) -/
theorem ctor_defaults_ok (radius : ℚ) (hr : 0 < radius) :
    Gen.circ_rejects radius (Gen.circ_default_search radius) = false ∧
    Gen.bs_rejects radius (Gen.bs_default_search radius (Gen.bs_default_radius_outer radius 0))
      (Gen.bs_default_radius_outer radius 0) = false := by
  unfold Gen.circ_rejects Gen.circ_default_search Gen.bs_rejects Gen.bs_default_search
    Gen.bs_default_radius_outer rmax
  constructor
  · simp only [decide_eq_false_iff_not, not_lt]; linarith
  · simp only [Bool.or_eq_false_iff, decide_eq_false_iff_not, not_le, not_lt]
    constructor
    · linarith
    · split_ifs <;> linarith

/-- the default radial map of `RadialGradientBackgroundSubtraction` is centred on its own
`shape // 2` pixel (repair of D6) and contains the outer radius with a margin of one pixel -/
theorem rgbs_center_integral (radius outer : ℚ) (hr : 0 ≤ radius) :
    let r := Gen.rgbs_r radius outer
    Gen.rgbs_center r = Gen.mask_center (Gen.rgbs_size r) ∧
    outer + 1 ≤ (Gen.rgbs_center r : ℚ) ∧ radius + 1 ≤ (Gen.rgbs_center r : ℚ) := by
  simp only []
  unfold Gen.rgbs_center Gen.rgbs_size
  rw [mask_center_floor]
  refine ⟨by omega, ?_, ?_⟩
  · unfold Gen.rgbs_r rmax
    push_cast
    have := @Rat.le_ceil (if radius ≤ outer then outer else radius)
    split_ifs at this ⊢ <;> linarith
  · unfold Gen.rgbs_r rmax
    push_cast
    have := @Rat.le_ceil (if radius ≤ outer then outer else radius)
    split_ifs at this ⊢ <;> linarith

/-- Defect D6 (pre-repair: centre `r + 1` in an array of `ceil(2r+2)`): for `r = 15/2` the centre
`17/2` is not a pixel. -/
theorem rgbs_prefix_counterexample : ∀ n : ℤ, ((15 : ℚ) / 2 + 1) ≠ (n : ℚ) := by
  intro n h
  have h2 : (17 : ℚ) = 2 * (n : ℚ) := by linarith
  have h3 : (17 : ℤ) = 2 * n := by exact_mod_cast h2
  omega

end C16
