import BlobfinderModel.Proofs.Lattice
import BlobfinderModel.Gen.Polar
import Mathlib.Analysis.SpecialFunctions.Complex.Arg
/-!
# C17 — lattice coordinate algebra is consistent
Vectors are `(y, x)` pairs of rationals; all statements hold for every zero point, all
non-parallel `a`, `b` (`det2 a b ≠ 0`), integer and fractional indices.
-/
namespace C17
open Model

/-- indices → coordinates → indices is the identity -/
theorem indices_of_coords (zero a b ij : V2) (hd : det2 a b ≠ 0) :
    getIndices zero a b (calcCoord zero a b ij) = some ij := by
  unfold getIndices calcCoord vadd vsub smul
  simp only [hd, if_false, Option.some.injEq]
  unfold det2 at *
  apply Prod.ext
  · simp only []; rw [div_eq_iff hd]; ring
  · simp only []; rw [div_eq_iff hd]; ring

/-- coordinates → indices → coordinates is the identity -/
theorem coords_of_indices (zero a b p ij : V2) (h : getIndices zero a b p = some ij) :
    calcCoord zero a b ij = p := by
  unfold getIndices at h
  simp only [] at h
  split at h
  · exact absurd h (by simp)
  · rename_i hd
    simp only [Option.some.injEq] at h
    unfold det2 vsub at *
    have h1 : ij.1 * (a.1 * b.2 - b.1 * a.2) = (p.1 - zero.1) * b.2 - b.1 * (p.2 - zero.2) := by
      rw [← h]; simp only []; rw [div_mul_cancel₀ _ hd]
    have h2 : ij.2 * (a.1 * b.2 - b.1 * a.2) = a.1 * (p.2 - zero.2) - (p.1 - zero.1) * a.2 := by
      rw [← h]; simp only []; rw [div_mul_cancel₀ _ hd]
    unfold calcCoord vadd smul
    apply Prod.ext
    · simp only []
      have : (a.1 * b.2 - b.1 * a.2) * (zero.1 + (ij.1 * a.1 + ij.2 * b.1) - p.1) = 0 := by
        linear_combination a.1 * h1 + b.1 * h2
      have := (mul_eq_zero.mp this).resolve_left hd
      linarith
    · simp only []
      have : (a.1 * b.2 - b.1 * a.2) * (zero.2 + (ij.1 * a.2 + ij.2 * b.2) - p.2) = 0 := by
        linear_combination a.2 * h1 + b.2 * h2
      have := (mul_eq_zero.mp this).resolve_left hd
      linarith

/-- parallel (or zero) vectors are rejected instead of producing garbage -/
theorem singular_rejected (zero a b p : V2) (hd : det2 a b = 0) : getIndices zero a b p = none := by
  unfold getIndices; simp [hd]

/-- the frame test is the half-open interval `r ≤ p < frame_size - r` on both axes -/
theorem within_frame_iff (p : V2) (r fy fx : ℚ) :
    withinFrame p r fy fx = true ↔ (r ≤ p.1 ∧ p.1 < fy - r) ∧ (r ≤ p.2 ∧ p.2 < fx - r) := by
  unfold withinFrame Gen.within_axis
  simp only [Bool.and_eq_true, decide_eq_true_eq, ge_iff_le]

/-- the margin band `r ≤ p < f - r` of an axis is non-empty exactly when `2 r < f`: a margin of "half the axis" leaves room
as long as it is strictly less than half — for an odd axis `f = 2k + 1` and `k ≤ r < k + 1/2` the centre line is still inside
(no shortcut may declare the band empty from `r ≥ f // 2`) -/
theorem band_nonempty_iff (r f : ℚ) : (∃ p : ℚ, r ≤ p ∧ p < f - r) ↔ 2 * r < f := by
  constructor
  · rintro ⟨p, h1, h2⟩; linarith
  · intro h; exact ⟨r, le_refl r, by linarith⟩

example : Gen.within_axis 16 16 33 = true ∧ (33 : ℤ) / 2 = 16 := by decide +kernel

/-- **`frame_peaks` returns exactly the index/coordinate pairs whose coordinate is in range, each
coordinate being `zero + i·a + j·b` for its own index** -/
theorem frame_peaks_spec (fy fx : ℚ) (zero a b : V2) (r : ℚ) (indices : List V2) (ij c : V2) :
    (ij, c) ∈ framePeaks fy fx zero a b r indices ↔
      ij ∈ indices ∧ c = calcCoord zero a b ij ∧
      (r ≤ c.1 ∧ c.1 < fy - r) ∧ (r ≤ c.2 ∧ c.2 < fx - r) := by
  unfold framePeaks
  rw [List.mem_filter, List.mem_map, within_frame_iff]
  constructor
  · rintro ⟨⟨x, hx, hxe⟩, hw⟩
    simp only [Prod.mk.injEq] at hxe
    obtain ⟨rfl, rfl⟩ := hxe
    exact ⟨hx, rfl, hw⟩
  · rintro ⟨hx, rfl, hw⟩
    exact ⟨⟨ij, hx, rfl⟩, hw⟩

/-- order and multiplicity are preserved: the result is the filtered input list -/
theorem frame_peaks_indices (fy fx : ℚ) (zero a b : V2) (r : ℚ) (indices : List V2) :
    (framePeaks fy fx zero a b r indices).map Prod.fst
      = indices.filter fun ij => withinFrame (calcCoord zero a b ij) r fy fx := by
  unfold framePeaks
  induction indices with
  | nil => rfl
  | cons x t ih =>
    simp only [List.map_cons, List.filter_cons]
    split <;> simp_all

/-- which index layout is taken for which array shape: `(2, n, m)` is the mgrid layout, `(n, 2)`
the list layout — in particular a `(2, 2)` list is a list —, identically in `regularize_indices`
and in `Match.calc_coords` -/
theorem layout_dispatch (ndim s0 s1 : ℤ) :
    (Gen.reg_is_mgrid ndim s0 s1 = true ↔ (ndim = 3 ∧ s0 = 2)) ∧
    (Gen.reg_is_list ndim s0 s1 = true ↔ (ndim = 2 ∧ s1 = 2)) ∧
    Gen.mc_is_mgrid ndim s0 s1 = Gen.reg_is_mgrid ndim s0 s1 ∧
    Gen.mc_is_list ndim s0 s1 = Gen.reg_is_list ndim s0 s1 := by
  unfold Gen.reg_is_mgrid Gen.reg_is_list Gen.mc_is_mgrid Gen.mc_is_list
  simp only [Bool.and_eq_true, decide_eq_true_eq]
  trivial

/-- the mgrid layout enumerates exactly the grid nodes `(I r c, J r c)` -/
theorem mgrid_layout_mem (n m : ℕ) (I J : ℕ → ℕ → ℚ) (v : V2) :
    v ∈ mgridLayout n m I J ↔ ∃ r c, r < n ∧ c < m ∧ v = (I r c, J r c) := by
  unfold mgridLayout
  simp only [List.mem_flatMap, List.mem_map, List.mem_range]
  constructor
  · rintro ⟨c, hc, r, hr, rfl⟩; exact ⟨r, c, hr, hc, rfl⟩
  · rintro ⟨r, c, hr, hc, rfl⟩; exact ⟨c, hc, r, hr, rfl⟩

/-- dropping the zero order removes exactly index (0, 0) -/
theorem drop_zero_iff (zero a b : V2) (indices : List V2) (c : V2) :
    c ∈ matchCalcCoords zero a b indices true none 0 ↔
      ∃ ij ∈ indices, ij ≠ (0, 0) ∧ c = calcCoord zero a b ij := by
  unfold matchCalcCoords
  simp only [List.mem_filter, List.mem_map, Bool.not_true, Bool.false_or, and_true]
  constructor
  · rintro ⟨ij, ⟨hmem, hnz⟩, rfl⟩
    refine ⟨ij, hmem, ?_, rfl⟩
    intro h
    rw [h] at hnz
    simp at hnz
  · rintro ⟨ij, hmem, hne, rfl⟩
    refine ⟨ij, ⟨hmem, ?_⟩, rfl⟩
    simp only [Bool.or_eq_true, bne_iff_ne, ne_eq]
    by_contra hcon
    push Not at hcon
    exact hne (Prod.ext hcon.1 hcon.2)

/-! ### polar / cartesian conversion (`make_polar`, `make_cartesian`)

The conversion functions are *generated* from the source over an abstract record of library
functions; here they are instantiated with the real `cos`, `sin`, the two-argument arctangent
(`arctan2 y x` = argument of `x + i y`) and the Euclidean norm. -/

/-- the real library functions -/
noncomputable def realTrig : Gen.Trig ℝ :=
  { cos := Real.cos, sin := Real.sin,
    arctan2 := fun y x => Complex.arg ⟨x, y⟩,
    norm2 := fun y x => Real.sqrt (y ^ 2 + x ^ 2) }

theorem norm_mk (y x : ℝ) : ‖(⟨x, y⟩ : ℂ)‖ = Real.sqrt (y ^ 2 + x ^ 2) := by
  rw [Complex.norm_def, Complex.normSq_mk]
  congr 1; ring

/-- **cartesian → polar → cartesian is the identity, for every vector (including zero)** -/
theorem cartesian_of_polar (y x : ℝ) :
    Gen.cartesian_y realTrig (Gen.polar_r realTrig y x) (Gen.polar_phi realTrig y x) = y ∧
    Gen.cartesian_x realTrig (Gen.polar_r realTrig y x) (Gen.polar_phi realTrig y x) = x := by
  unfold Gen.cartesian_y Gen.cartesian_x Gen.polar_r Gen.polar_phi realTrig
  simp only
  rw [← norm_mk y x]
  constructor
  · rw [mul_comm]; exact Complex.norm_mul_sin_arg ⟨x, y⟩
  · rw [mul_comm]; exact Complex.norm_mul_cos_arg ⟨x, y⟩

/-- **polar → cartesian → polar is the identity for positive length and angle in (−π, π]** -/
theorem polar_of_cartesian (r phi : ℝ) (hr : 0 < r) (hphi : phi ∈ Set.Ioc (-Real.pi) Real.pi) :
    Gen.polar_r realTrig (Gen.cartesian_y realTrig r phi) (Gen.cartesian_x realTrig r phi) = r ∧
    Gen.polar_phi realTrig (Gen.cartesian_y realTrig r phi) (Gen.cartesian_x realTrig r phi) = phi := by
  unfold Gen.cartesian_y Gen.cartesian_x Gen.polar_r Gen.polar_phi realTrig
  simp only
  have hz : (⟨Real.cos phi * r, Real.sin phi * r⟩ : ℂ) = (r : ℂ) * (Complex.cos phi + Complex.sin phi * Complex.I) := by
    apply Complex.ext
    · simp [Complex.cos_ofReal_re, Complex.sin_ofReal_re, Complex.cos_ofReal_im, Complex.sin_ofReal_im]; ring
    · simp [Complex.cos_ofReal_re, Complex.sin_ofReal_re, Complex.cos_ofReal_im, Complex.sin_ofReal_im]; ring
  constructor
  · rw [← norm_mk, hz, norm_mul, Complex.norm_real, Real.norm_eq_abs, abs_of_pos hr]
    have : ‖Complex.cos phi + Complex.sin phi * Complex.I‖ = 1 := by
      rw [← Complex.exp_mul_I]; exact Complex.norm_exp_ofReal_mul_I phi
    rw [this, mul_one]
  · rw [hz]; exact Complex.arg_mul_cos_add_sin_mul_I hr hphi

/-- the order of the returned components is `(y, x)` resp. `(length, angle)`: the round trip of a
concrete vector (non-vacuity; `arctan2 1 0 = π/2`) -/
example : Gen.polar_phi realTrig 1 0 = Real.pi / 2 := by
  unfold Gen.polar_phi realTrig
  simp only
  have : (⟨0, 1⟩ : ℂ) = Complex.I := by apply Complex.ext <;> simp
  rw [this, Complex.arg_I]

/-- non-vacuity: a skewed lattice -/
example : getIndices (1, 2) (3, 1) (-1, 4) (calcCoord (1, 2) (3, 1) (-1, 4) (2, -3)) = some (2, -3) := by
  decide +kernel

end C17
