import BlobfinderModel.Proofs.Masks
import BlobfinderModel.Model.Fastmatch
import Mathlib.Data.Rat.Floor
/-!
# C18 — antialiased radial masks form a partition of unity

`r` is the distance of a pixel from the centre (any non-negative rational; the theorems hold
for every `r`, hence for every centre — integer or not, inside or outside the image — and
every image size), `R` = `radius`, `ri` = `radius_inner`, `n` = `n_bins`,
`w = (R - ri)/n` the bin width.  `Gen.bin_val`, `Gen.bin_width`, `Gen.patch_*` are
regenerated from `base/masks.py` on every run.
-/
namespace C18
open Model

/-- every bin value is in `[0, 1]`, for any width, centre and distance -/
theorem bins_nonneg (R ri : ℚ) (n k : ℕ) (r : ℚ) : 0 ≤ binVal R ri n k r :=
  bin_val_nonneg _ _ _

theorem bins_le_one (R ri : ℚ) (n k : ℕ) (r : ℚ) : binVal R ri n k r ≤ 1 :=
  bin_val_le_one _ _ _

/-- sum over all (unpatched) bins = outer-edge ramp difference (telescoping), `w ≥ 1` -/
theorem bins_sum_telescope (R ri : ℚ) (n : ℕ) (hn : 0 < n) (hw : 1 ≤ Gen.bin_width R ri n) (r : ℚ) :
    ((List.range n).map fun k => binVal R ri n k r).sum
      = ramp (r - ri + 1 / 2) - ramp (r - R + 1 / 2) := by
  have hR : ri + (n : ℚ) * Gen.bin_width R ri n = R := by
    unfold Gen.bin_width
    have : ((n : ℤ) : ℚ) ≠ 0 := by
      have : (0 : ℚ) < ((n : ℤ) : ℚ) := by exact_mod_cast hn
      exact ne_of_gt this
    have e : ((n : ℕ) : ℚ) = ((n : ℤ) : ℚ) := by norm_cast
    rw [e]; field_simp; ring
  have h := sum_ramp_telescope ri (Gen.bin_width R ri n) r n
  rw [hR] at h
  rw [← h]
  congr 1
  apply List.map_congr_left
  intro k _
  unfold binVal binCenter
  rw [binVal_eq_ramp_sub _ _ _ hw]

/-- **Partition of unity**: at every pixel whose distance lies at least 0.5 px inside
`[radius_inner, radius]` the bins sum to exactly 1. -/
theorem partition_of_unity (R ri : ℚ) (n : ℕ) (hn : 0 < n) (hw : 1 ≤ Gen.bin_width R ri n)
    (r : ℚ) (hlo : ri + 1 / 2 ≤ r) (hhi : r ≤ R - 1 / 2) :
    ((List.range n).map fun k => binVal R ri n k r).sum = 1 := by
  rw [bins_sum_telescope R ri n hn hw, ramp_eq_one _ (by linarith), ramp_eq_zero _ (by linarith)]
  ring

/-- at least 0.5 px outside the annulus the bins sum to 0 (hence every bin is 0) -/
theorem bins_zero_outside (R ri : ℚ) (n : ℕ) (hn : 0 < n) (hw : 1 ≤ Gen.bin_width R ri n)
    (r : ℚ) (hout : R + 1 / 2 ≤ r ∨ r ≤ ri - 1 / 2) :
    ((List.range n).map fun k => binVal R ri n k r).sum = 0 := by
  rw [bins_sum_telescope R ri n hn hw]
  have hRri : ri ≤ R := by
    have : 0 < Gen.bin_width R ri n := by linarith
    unfold Gen.bin_width at this
    have hnq : (0 : ℚ) < ((n : ℤ) : ℚ) := by exact_mod_cast hn
    have := (div_pos_iff_of_pos_right hnq).mp this
    linarith
  rcases hout with h | h
  · rw [ramp_eq_one _ (by linarith), ramp_eq_one _ (by linarith)]; ring
  · rw [ramp_eq_zero _ (by linarith), ramp_eq_zero _ (by linarith)]; ring

/-- the sum of the bins never exceeds 1 and is never negative, anywhere -/
theorem bins_sum_range (R ri : ℚ) (n : ℕ) (hn : 0 < n) (hw : 1 ≤ Gen.bin_width R ri n) (r : ℚ) :
    0 ≤ ((List.range n).map fun k => binVal R ri n k r).sum ∧
    ((List.range n).map fun k => binVal R ri n k r).sum ≤ 1 := by
  rw [bins_sum_telescope R ri n hn hw]
  have hRri : ri ≤ R := by
    have : 0 < Gen.bin_width R ri n := by linarith
    unfold Gen.bin_width at this
    have hnq : (0 : ℚ) < ((n : ℤ) : ℚ) := by exact_mod_cast hn
    have := (div_pos_iff_of_pos_right hnq).mp this
    linarith
  have h1 := ramp_mono (r - R + 1 / 2) (r - ri + 1 / 2) (by linarith)
  have h2 := ramp_le_one (r - ri + 1 / 2)
  have h3 := ramp_nonneg (r - R + 1 / 2)
  constructor <;> linarith

/-- The centre patch is applied only to a pixel closer than 0.5 px to the centre, and only for
`radius_inner < 0.5` (repair of defect D7); its value is `1 - radius_inner`, written into the
first bin before the non-zero selection and the normalisation (repair of D8), and nowhere else. -/
theorem patch_conditions (ri : ℚ) (isCenterPixel : Bool) (r : ℚ)
    (h : patched ri isCenterPixel r = true) :
    ri < 1 / 2 ∧ r < 1 / 2 ∧ isCenterPixel = true := by
  unfold patched Gen.patch_guard Gen.patch_applies at h
  simp only [Bool.and_eq_true, decide_eq_true_eq] at h
  exact ⟨h.1, h.2.2, h.2.1⟩

/-- a pixel at distance `≥ 0.5` from the centre is never patched: there the returned bins are
the plain bins, so the partition of unity of `partition_of_unity` is what the code returns -/
theorem binsAt_unpatched (R ri : ℚ) (n : ℕ) (isCenterPixel : Bool) (r : ℚ) (hr : 1 / 2 ≤ r) :
    binsAt R ri n isCenterPixel r = (List.range n).map fun k => binVal R ri n k r := by
  unfold binsAt
  have : patched ri isCenterPixel r = false := by
    by_contra hc
    have := patch_conditions ri isCenterPixel r (by simpa using hc)
    linarith [this.2.1]
  simp [this]

/-- **What `radial_bins` returns sums to 1** on the whole annulus (0.5 px inside), patched or not. -/
theorem binSum_one (R ri : ℚ) (n : ℕ) (hn : 0 < n) (hw : 1 ≤ Gen.bin_width R ri n)
    (hri : 0 ≤ ri) (isCenterPixel : Bool) (r : ℚ) (hlo : ri + 1 / 2 ≤ r) (hhi : r ≤ R - 1 / 2) :
    binSum R ri n isCenterPixel r = 1 := by
  unfold binSum
  rw [lsum_eq_sum, binsAt_unpatched R ri n isCenterPixel r (by linarith)]
  exact partition_of_unity R ri n hn hw r hlo hhi

/-- at the patched pixel all bins except the first vanish, so the sum there is `1 - radius_inner`
(exactly 1 for a full disk, `radius_inner = 0`) -/
theorem binSum_patched (R ri : ℚ) (n : ℕ) (hn : 0 < n) (hw : 1 ≤ Gen.bin_width R ri n)
    (hri : 0 ≤ ri) (r : ℚ) (hr0 : 0 ≤ r) (hp : patched ri true r = true) :
    binSum R ri n true r = 1 - ri := by
  have hc := patch_conditions ri true r hp
  unfold binSum
  rw [lsum_eq_sum]
  unfold binsAt
  obtain ⟨m, rfl⟩ : ∃ m, n = m + 1 := ⟨n - 1, by omega⟩
  rw [List.range_succ_eq_map, List.map_cons, List.sum_cons, List.map_map]
  simp only [hp, Bool.true_and, beq_self_eq_true, if_true]
  have hz : ((List.range m).map ((fun k => if (k == 0) = true then Gen.patch_value ri
      else binVal R ri (m + 1) k r) ∘ Nat.succ)).sum = 0 := by
    apply List.sum_eq_zero
    intro x hx
    rw [List.mem_map] at hx
    obtain ⟨k, _, rfl⟩ := hx
    simp only [Function.comp, Nat.succ_ne_zero, beq_iff_eq, if_false]
    unfold binVal binCenter
    rw [binVal_eq_ramp_sub _ _ _ hw]
    generalize Gen.bin_width R ri ↑(m + 1) = W at hw ⊢
    have hk : (1 : ℚ) ≤ ((k.succ : ℕ) : ℚ) := by exact_mod_cast Nat.succ_pos k
    have hwpos : 0 ≤ W := by linarith
    have : W ≤ ((k.succ : ℕ) : ℚ) * W := by nlinarith
    rw [ramp_eq_zero _ (by linarith [hc.2.1]), ramp_eq_zero _ (by linarith [hc.2.1])]
    ring
  rw [hz]
  show Gen.patch_value ri + 0 = 1 - ri
  unfold Gen.patch_value; ring

/-- normalisation: dividing the values of a bin by their (non-zero) sum makes them sum to 1 -/
theorem normalized_sum_one (vals : List ℚ) (hs : vals.sum ≠ 0) :
    (vals.map (· / vals.sum)).sum = 1 := by
  have key : ∀ (l : List ℚ) (s : ℚ), (l.map (· / s)).sum = l.sum / s := by
    intro l s
    induction l with
    | nil => simp
    | cons a t ih => simp only [List.map_cons, List.sum_cons, ih]; ring
  rw [key, div_self hs]

/-- **ring + inner disk = outer disk** (antialiased, one bin each; `ri ≥ 1`, `R - ri ≥ 1`):
at every unpatched pixel … -/
theorem ring_plus_disk (R ri r : ℚ) (hri : 1 ≤ ri) (hw : 1 ≤ R - ri) :
    binVal R ri 1 0 r + binVal ri 0 1 0 r = binVal R 0 1 0 r := by
  unfold binVal binCenter Gen.bin_width
  simp only [Nat.cast_one, Int.cast_one, div_one, Nat.cast_zero, zero_mul, add_zero, sub_zero]
  have e1 := binVal_eq_ramp_sub (R - ri) ri r hw
  have e2 := binVal_eq_ramp_sub ri 0 r hri
  have e3 := binVal_eq_ramp_sub R 0 r (by linarith)
  simp only [zero_add, sub_zero] at e2 e3 ⊢
  rw [e1, e2, e3]
  have : ri + (R - ri) = R := by ring
  rw [this]; ring

/-- … and at the patched centre pixel (`r < 1/2`): ring 0, both disks 1. -/
theorem ring_plus_disk_center (R ri r : ℚ) (hri : 1 ≤ ri) (hw : 1 ≤ R - ri) (hr : r < 1 / 2) :
    binVal R ri 1 0 r = 0 ∧ Gen.patch_value 0 = 1 := by
  constructor
  · unfold binVal binCenter Gen.bin_width
    simp only [Nat.cast_one, Int.cast_one, div_one, Nat.cast_zero, zero_mul, add_zero]
    rw [binVal_eq_ramp_sub (R - ri) ri r hw, ramp_eq_zero _ (by linarith), ramp_eq_zero _ (by linarith)]
    ring
  · unfold Gen.patch_value; ring

/-- antialiased disks have values in `[0, 1]` -/
theorem disk_range (R r : ℚ) : 0 ≤ binVal R 0 1 0 r ∧ binVal R 0 1 0 r ≤ 1 :=
  ⟨bins_nonneg _ _ _ _ _, bins_le_one _ _ _ _ _⟩

/-- Defect D7 (pre-repair: patch whenever the rounded centre pixel is inside, even at distance
≥ 0.5): centre (10.5, 10.5), pixel (10, 10) at distance `r² = 1/2`; with `r = 7/10` as a
rational stand-in the patched sum is `1 + bin₁ = 6/5 ≠ 1`. -/
theorem patch_prefix_counterexample :
    Gen.patch_value 0 + binVal 8 0 8 1 (7 / 10) = 6 / 5 := by
  unfold Gen.patch_value binVal binCenter Gen.bin_width Gen.bin_val rmax rmin rabs
  norm_num

/-- non-vacuity: 8 bins of width 1 on radius 8 -/
example : (1 : ℚ) ≤ Gen.bin_width 8 0 8 := by unfold Gen.bin_width; norm_num

/-! ### the default bin layout (`n_bins=None`) -/

/-- **which calls with the default bin count are inputs of this property**: the default is
`int(np.round(radius - radius_inner))` (`Gen.bin_default_n_expr`, half-to-even).  For a span `s = R - ri ≥ 1` the default
layout has bin width ≥ 1 px — the hypothesis of every clause above — exactly when the fractional part of `s` is below 1/2,
or equal to 1/2 with an even integer part.  For the other spans (3.5, 7.5, 2.7, …) the default bins are narrower than a
pixel and the partition clauses do not apply (the bin sum exceeds 1 there: checked on the implementation). -/
theorem default_layout_domain (R ri : ℚ) (hs : 1 ≤ R - ri) :
    1 ≤ Gen.bin_width R ri (roundHalfEven (R - ri)) ↔
      ((R - ri) - ((R - ri).floor : ℚ) < 1 / 2 ∨
        ((R - ri) - ((R - ri).floor : ℚ) = 1 / 2 ∧ (R - ri).floor % 2 = 0)) := by
  set s := R - ri with hsdef
  have h1 : ((s.floor : ℤ) : ℚ) ≤ s := Int.floor_le s
  have h2 : s < ((s.floor : ℤ) : ℚ) + 1 := Int.lt_floor_add_one s
  have hf1 : (1 : ℤ) ≤ s.floor := Int.le_floor.mpr (by exact_mod_cast hs)
  have hf1q : (1 : ℚ) ≤ ((s.floor : ℤ) : ℚ) := by exact_mod_cast hf1
  -- width ≥ 1 ⇔ n ≤ s for a positive bin count
  have key : ∀ n : ℤ, 0 < n → (1 ≤ Gen.bin_width R ri n ↔ (n : ℚ) ≤ s) := by
    intro n hn
    unfold Gen.bin_width
    have hnq : (0 : ℚ) < (n : ℚ) := by exact_mod_cast hn
    rw [le_div_iff₀ hnq, one_mul]
  unfold roundHalfEven
  simp only []
  split_ifs with c1 c2 c3
  · rw [key _ (by omega)]
    constructor
    · intro _; left; exact c1
    · intro _; exact h1
  · rw [key _ (by omega)]
    push_cast
    constructor
    · intro h; linarith
    · rintro (h | ⟨h, _⟩) <;> linarith
  · rw [key _ (by omega)]
    have hd : s - ((s.floor : ℤ) : ℚ) = 1 / 2 := le_antisymm (not_lt.mp c2) (not_lt.mp c1)
    constructor
    · intro _; right; exact ⟨hd, c3⟩
    · intro _; exact h1
  · rw [key _ (by omega)]
    push_cast
    have hd : s - ((s.floor : ℤ) : ℚ) = 1 / 2 := le_antisymm (not_lt.mp c2) (not_lt.mp c1)
    constructor
    · intro h; linarith
    · rintro (h | ⟨_, h⟩)
      · linarith
      · exact absurd h c3

/-- non-vacuity: span 4.5 is inside the domain (4 bins of 1.125 px), span 3.5 is not (4 bins of 0.875 px) -/
example : roundHalfEven (9 / 2) = 4 ∧ 1 ≤ Gen.bin_width (9 / 2) 0 4 ∧ roundHalfEven (7 / 2) = 4
    ∧ ¬ 1 ≤ Gen.bin_width (7 / 2) 0 4 := by decide +kernel

end C18
