import BlobfinderModel.Properties.C16
/-!
# C19 — sparse mask stacks equal dense stamping with clipping
-/
namespace C19
open Model

/-- a sum over `range n` in which only index `a` can be non-zero -/
theorem sum_range_single (f : ℕ → ℚ) (a : ℕ) (h : ∀ k, k ≠ a → f k = 0) (n : ℕ) :
    ((List.range n).map f).sum = if a < n then f a else 0 := by
  induction n with
  | zero => simp
  | succ n ih =>
    rw [List.range_succ, List.map_append, List.sum_append, ih]
    simp only [List.map_cons, List.map_nil, List.sum_cons, List.sum_nil, add_zero]
    by_cases han : a = n
    · subst han; simp
    · rw [h n (fun e => han e.symm), add_zero]
      by_cases hlt : a < n
      · rw [if_pos hlt, if_pos (by omega)]
      · rw [if_neg hlt, if_neg (by omega)]

/-- **Each layer equals a zero image into which the template has been copied with its top-left
corner at the offset, clipped at the image border** (empty if entirely outside): for every
template size, image size, offset and pixel. -/
theorem stamp_dense_eq (tmpl : ℤ → ℤ → ℚ) (th tw oy ox sy sx y x : ℤ) (hth : 0 ≤ th) (htw : 0 ≤ tw) :
    stampDense tmpl th tw oy ox sy sx y x
      = if (0 ≤ y - oy ∧ y - oy < th ∧ 0 ≤ x - ox ∧ x - ox < tw) ∧ (0 ≤ y ∧ y < sy ∧ 0 ≤ x ∧ x < sx)
        then tmpl (y - oy) (x - ox) else 0 := by
  unfold stampDense
  simp only [lsum_eq_sum]
  have hsel : ∀ cy cx : ℤ, Gen.stamp_sel cy cx sy sx = true ↔ (0 ≤ cy ∧ cy < sy ∧ 0 ≤ cx ∧ cx < sx) := by
    intro cy cx
    unfold Gen.stamp_sel
    simp only [Bool.and_eq_true, decide_eq_true_eq, ge_iff_le]
    tauto
  -- inner sum
  have inner : ∀ ty : ℕ, ((List.range tw.toNat).map fun (tx : ℕ) =>
        if Gen.stamp_sel ((ty : ℤ) + oy) ((tx : ℤ) + ox) sy sx = true ∧ (ty : ℤ) + oy = y ∧ (tx : ℤ) + ox = x
        then tmpl ty tx else 0).sum
      = if ((ty : ℤ) + oy = y ∧ 0 ≤ x - ox ∧ x - ox < tw) ∧ (0 ≤ y ∧ y < sy ∧ 0 ≤ x ∧ x < sx)
        then tmpl ty (x - ox) else 0 := by
    intro ty
    rw [sum_range_single _ (x - ox).toNat]
    · by_cases hc : ((ty : ℤ) + oy = y ∧ 0 ≤ x - ox ∧ x - ox < tw) ∧ (0 ≤ y ∧ y < sy ∧ 0 ≤ x ∧ x < sx)
      · have e : (((x - ox).toNat : ℕ) : ℤ) = x - ox := Int.toNat_of_nonneg hc.1.2.1
        rw [if_pos hc, if_pos (by omega), e, if_pos]
        refine ⟨(hsel _ _).mpr ?_, hc.1.1, by omega⟩
        rw [hc.1.1]; refine ⟨hc.2.1, hc.2.2.1, by omega, by omega⟩
      · rw [if_neg hc]
        split
        · rw [if_neg]
          intro hh
          apply hc
          have h1 := (hsel _ _).mp hh.1
          refine ⟨⟨hh.2.1, by omega, by omega⟩, by omega, by omega, by omega, by omega⟩
        · rfl
    · intro k hk
      rw [if_neg]
      intro hh
      apply hk
      omega
  simp only [inner]
  rw [sum_range_single _ (y - oy).toNat]
  · by_cases hc : (0 ≤ y - oy ∧ y - oy < th ∧ 0 ≤ x - ox ∧ x - ox < tw) ∧ (0 ≤ y ∧ y < sy ∧ 0 ≤ x ∧ x < sx)
    · have e : (((y - oy).toNat : ℕ) : ℤ) = y - oy := Int.toNat_of_nonneg hc.1.1
      rw [if_pos hc, if_pos (by omega), e, if_pos]
      exact ⟨⟨by omega, hc.1.2.2.1, hc.1.2.2.2⟩, hc.2⟩
    · rw [if_neg hc]
      split
      · rw [if_neg]
        intro hh
        apply hc
        refine ⟨⟨by omega, by omega, hh.1.2.1, hh.1.2.2⟩, hh.2⟩
      · rfl
  · intro k hk
    rw [if_neg]
    intro hh
    apply hk
    omega

/-- the feature-vector stack places the mask's centre pixel on each peak: offset + centre of a
`(2c+1)`-sized mask = peak -/
theorem feature_vector_center (peak c : ℤ) (hc : 0 ≤ c) :
    Gen.fv_offset peak c + Gen.mask_center (Gen.fv_size c) = peak := by
  unfold Gen.fv_offset Gen.fv_size
  rw [C16.mask_center_floor]; omega

/-- the sparse circular stack uses an odd bounding box centred on `ceil(radius)` … -/
theorem sparse_circular_bbox (radius : ℚ) (hr : 0 ≤ radius) :
    Gen.sc_center (Gen.sc_bbox radius) = radius.ceil ∧ Gen.sc_bbox radius = 2 * radius.ceil + 1 := by
  unfold Gen.sc_center Gen.sc_bbox
  rw [C16.fdiv_two]; omega

/-- … which loses nothing of the disk: a pixel offset `(dy, dx)` inside the non-antialiased disk
lies inside the bounding box. -/
theorem sparse_circular_eq_dense (radius : ℚ) (hr : 0 ≤ radius) (dy dx : ℤ)
    (hin : Gen.disk_in (dy : ℚ) (dx : ℚ) radius = true) :
    -radius.ceil ≤ dy ∧ dy ≤ radius.ceil ∧ -radius.ceil ≤ dx ∧ dx ≤ radius.ceil := by
  unfold Gen.disk_in at hin
  simp only [decide_eq_true_eq] at hin
  have hc : radius ≤ (radius.ceil : ℚ) := Rat.le_ceil
  have key : ∀ d : ℤ, (d : ℚ) * d ≤ radius * radius → -radius.ceil ≤ d ∧ d ≤ radius.ceil := by
    intro d hd
    have hle : (d : ℚ) ≤ radius := by
      by_contra hcon
      push_neg at hcon
      nlinarith
    have hge : -radius ≤ (d : ℚ) := by
      by_contra hcon
      push_neg at hcon
      nlinarith
    have h2 : -radius ≤ (d : ℚ) ∧ (d : ℚ) ≤ radius := ⟨hge, hle⟩
    constructor
    · have : -(radius.ceil : ℚ) ≤ (d : ℚ) := by linarith
      exact_mod_cast this
    · have : (d : ℚ) ≤ (radius.ceil : ℚ) := by linarith
      exact_mod_cast this
  have hy : (dy : ℚ) * dy ≤ radius * radius := by nlinarith [mul_self_nonneg (dx : ℚ)]
  have hx : (dx : ℚ) * dx ≤ radius * radius := by nlinarith [mul_self_nonneg (dy : ℚ)]
  exact ⟨(key dy hy).1, (key dy hy).2, (key dx hx).1, (key dx hx).2⟩

/-- non-vacuity: a 2×3 template of distinct values stamped at (-1, 2) into a 3×4 image -/
example : stampDense (fun a b => 10 * a + b + 1) 2 3 (-1) 2 3 4 0 3 = 12
    ∧ stampDense (fun a b => 10 * a + b + 1) 2 3 (-1) 2 3 4 1 3 = 0 := by
  constructor <;> decide +kernel

end C19
