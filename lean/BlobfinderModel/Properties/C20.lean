import BlobfinderModel.Properties.C06
/-!
# C20 — affine transformation helpers round-trip and find the fixed point

`get_transformation` solves, for each output column, a weighted least-squares problem with
design rows `(u, v, 1) = (ref - centre, 1)`, targets `peaks - centre` (resp. `1`) and rows
multiplied by the weights (so the weights enter **squared**).  This is the WLS model of C06 with
`i := u`, `j := v`, constant column = `z`, and `w := weight²`.
-/
namespace C20
open Model

theorem sum_nonneg_eq_zero (l : List ℚ) (hnn : ∀ x ∈ l, 0 ≤ x) (hs : l.sum = 0) : ∀ x ∈ l, x = 0 := by
  induction l with
  | nil => intro x hx; cases hx
  | cons a t ih =>
    simp only [List.sum_cons] at hs
    have ha : 0 ≤ a := hnn a List.mem_cons_self
    have ht : 0 ≤ t.sum := List.sum_nonneg (fun x hx => hnn x (List.mem_cons_of_mem _ hx))
    intro x hx
    rcases List.mem_cons.mp hx with rfl | hx'
    · linarith
    · exact ih (fun y hy => hnn y (List.mem_cons_of_mem _ hy)) (by linarith) x hx'

/-- **Exact affine relation ⇒ exact reproduction**: if the targets are exactly affine in the
reference coordinates, any solution of the (squared-)weighted normal equations with positive
weights reproduces every target exactly, for any centre (it only shifts `u, v`) and any positive
weights — no rank condition is needed for this direction. -/
theorem transformation_exact (l : List Obs) (hw : ∀ o ∈ l, 0 < o.w) (z0 a0 b0 : ℚ)
    (hexact : ∀ o ∈ l, o.t = z0 + o.i * a0 + o.j * b0) (z al be : ℚ) (hN : NormalEqs z al be l) :
    ∀ o ∈ l, z + o.i * al + o.j * be = o.t := by
  have hopt := C06.lsq_optimal l (fun o ho => le_of_lt (hw o ho)) z al be hN z0 a0 b0
  have h0 : wss z0 a0 b0 l = 0 := by
    unfold wss
    rw [lsum_eq_sum]
    apply List.sum_eq_zero
    intro x hx
    rw [List.mem_map] at hx
    obtain ⟨o, ho, rfl⟩ := hx
    unfold resid
    rw [hexact o ho]; ring
  have hnn : 0 ≤ wss z al be l := by
    unfold wss; rw [lsum_eq_sum]
    exact sum_weighted_sq_nonneg l (fun o ho => le_of_lt (hw o ho)) _
  have hz : wss z al be l = 0 := by linarith
  unfold wss at hz
  rw [lsum_eq_sum] at hz
  intro o ho
  have := sum_nonneg_eq_zero _ (by
    intro x hx
    rw [List.mem_map] at hx
    obtain ⟨o', ho', rfl⟩ := hx
    exact mul_nonneg (le_of_lt (hw o' ho')) (sq_nonneg _)) hz (o.w * resid z al be o ^ 2)
    (List.mem_map.mpr ⟨o, ho, rfl⟩)
  have hr : resid z al be o ^ 2 = 0 := by
    rcases mul_eq_zero.mp this with h | h
    · exact absurd h (ne_of_gt (hw o ho))
    · exact h
  have hr' : resid z al be o = 0 := by
    exact pow_eq_zero_iff (by norm_num) |>.mp hr
  unfold resid at hr'
  linarith

/-- with residuals the fit is the least-squares optimum for the **squared** weights
(`w = weight²` in the observations), by C06 -/
theorem transformation_optimal (l : List Obs) (hw : ∀ o ∈ l, 0 ≤ o.w) (z al be : ℚ)
    (hN : NormalEqs z al be l) (z' al' be' : ℚ) : wss z al be l ≤ wss z' al' be' l :=
  C06.lsq_optimal l hw z al be hN z' al' be'

/-- **`find_center` returns the fixed point**: if `c'` solves `(M - diag(1,1,0))ᵀ c' = e₃` for a
homogeneous matrix `M` (third column `(0,0,1)ᵀ`, acting on row vectors), then `c'₃ = 1` and
`[c'₁, c'₂, 1] · M = [c'₁, c'₂, 1]`. -/
theorem find_center_fixed_point (m00 m01 m10 m11 m20 m21 c0 c1 c2 : ℚ)
    (h0 : (m00 - 1) * c0 + m10 * c1 + m20 * c2 = 0)
    (h1 : m01 * c0 + (m11 - 1) * c1 + m21 * c2 = 0)
    (h2 : 0 * c0 + 0 * c1 + (1 - 0) * c2 = 1) :
    c2 = 1 ∧ c0 * m00 + c1 * m10 + 1 * m20 = c0 ∧ c0 * m01 + c1 * m11 + 1 * m21 = c1 := by
  have hc2 : c2 = 1 := by linarith
  subst hc2
  refine ⟨rfl, by linarith, by linarith⟩

/-- non-vacuity of `transformation_exact`: three non-collinear points, weights 1, 4, 9 -/
example : NormalEqs 1 2 3 [⟨0, 0, 1, 1⟩, ⟨1, 0, 4, 3⟩, ⟨0, 1, 9, 4⟩] := by
  unfold NormalEqs lsum resid
  norm_num [List.foldl]

end C20
