import BlobfinderModel.Properties.C01
/-!
# C01 — wiring: text of the current source pinned for code that is glue between library calls
(kept apart from the property theorems so that a module importing `Properties.C01` does not depend on these pins)
-/
namespace C01
open Model

theorem upsample_wiring :
    Gen.us_corr_center_expr = "np.ceil(np.asarray(corr_shape) / 2, dtype=np.float32)" ∧
    Gen.us_shift = "upsample_pos - corrmap_center" ∧ Gen.us_shift_us = "np.round(shift * upsample_factor)" ∧
    Gen.us_sample_region_offset = "dftshift - shift_us" ∧
    Gen.us_frequencies = "(fft.fftfreq(corr_shape[0], upsample_factor), fft.rfftfreq(corr_shape[1], upsample_factor))" ∧
    Gen.us_corr_shape = "corrs.shape[1:] if corrspec_stack else sig_shape" := ⟨rfl, rfl, rfl, rfl, rfl, rfl⟩

end C01
