import BlobfinderModel.Properties.C02
import BlobfinderModel.Gen.Eval
import BlobfinderModel.Gen.Blocks
/-!
# C02 — wiring: text of the current source pinned for code that is glue between library calls
(kept apart from the property theorems so that a module importing `Properties.C02` does not depend on these pins)
-/
namespace C02

/-- the batch helpers as written (peak list handling, buffer allocation, loop over the frames): glue the model takes for granted
-- a change there is a change of the tie -/
theorem text_pins_wrappers :
    Gen.fast_wrapper_body = "crop_size = pattern.get_crop_size() ; template = pattern.get_template(sig_shape=(2 * crop_size, 2 * crop_size)) ; centers = np.zeros((len(frames), len(peaks), 2), dtype=np.int16) ; refineds = np.zeros((len(frames), len(peaks), 2), dtype=np.float32) ; heights = np.zeros((len(frames), len(peaks)), dtype=np.float32) ; elevations = np.zeros((len(frames), len(peaks)), dtype=np.float32) ; crop_bufs = correlation.allocate_crop_bufs(crop_size, len(peaks), np.result_type(frames.dtype, np.float32)) ; for i, f in enumerate(frames): correlation.process_frame_fast(template=template, crop_size=crop_size, frame=f, peaks=peaks.astype(np.int32), out_centers=centers[i], out_refineds=refineds[i], out_heights=heights[i], out_elevations=elevations[i], crop_bufs=crop_bufs, upsample=upsample) ; return (centers, refineds, heights, elevations)" ∧
    Gen.full_wrapper_body = "crop_size = pattern.get_crop_size() ; template = pattern.get_template(sig_shape=frames[0].shape) ; centers = np.zeros((len(frames), len(peaks), 2), dtype=np.int16) ; refineds = np.zeros((len(frames), len(peaks), 2), dtype=np.float32) ; heights = np.zeros((len(frames), len(peaks)), dtype=np.float32) ; elevations = np.zeros((len(frames), len(peaks)), dtype=np.float32) ; frame_buf = correlation.zeros(frames[0].shape, dtype=np.float32) ; buf_count = correlation.get_buf_count(crop_size, len(peaks), frame_buf.dtype) ; for i, f in enumerate(frames): correlation.process_frame_full(template=template, crop_size=crop_size, frame=f, peaks=peaks.astype(np.int32), out_centers=centers[i], out_refineds=refineds[i], out_heights=heights[i], out_elevations=elevations[i], frame_buf=frame_buf, buf_count=buf_count, upsample=upsample) ; return (centers, refineds, heights, elevations)" := ⟨rfl, rfl⟩

/-- when the upsampled refinement runs: `upsample=True` stands for the factor 20 in both pipelines, and the refinement is
switched on by any factor above 1 -- the accuracy clause `1/upsample + 0.03` is about exactly those calls -/
theorem upsample_switch :
    (∀ u : ℤ, Gen.fast_upsample_on u = true ↔ 1 < u) ∧ Gen.fast_upsample_default = 20
    ∧ (∀ u : ℤ, Gen.full_upsample_on u = true ↔ 1 < u) ∧ Gen.full_upsample_default = 20 := by
  refine ⟨?_, rfl, ?_, rfl⟩ <;> intro u <;> simp [Gen.fast_upsample_on, Gen.full_upsample_on]

end C02
