import BlobfinderModel.Properties.C03
/-!
# C03 — wiring: text of the current source pinned for code that is glue between library calls
(kept apart from the property theorems so that a module importing `Properties.C03` does not depend on these pins)
-/
namespace C03
open Model

theorem logscale_wiring :
    Gen.cropbuf_min_expr = "np.min(crop_bufs, axis=(-1, -2))" ∧ Gen.cropbuf_log_out = "crop_bufs" ∧
    Gen.log_out = "out" ∧ Gen.log_dtype = "np.result_type(data.dtype, np.float32)" := ⟨rfl, rfl, rfl, rfl⟩

/-- which transforms and which shift build the correlation maps -/
theorem fft_wiring :
    Gen.fast_corr_shift = "fft.ifftshift" ∧ Gen.fast_corr_inverse = "fft.irfft2" ∧
    Gen.fast_corr_s = "crop_parts.shape[-2:]" ∧ Gen.fast_corr_axes = "(-2, -1)" ∧
    Gen.fast_corr_spec = "template * spec_parts" ∧ Gen.fast_corr_fwd = "fft.rfft2(crop_parts)" ∧
    Gen.full_corr_shift = "fft.ifftshift" ∧ Gen.full_corr_inverse = "fft.irfft2" ∧
    Gen.full_corr_s = "frame_buf.shape[-2:]" ∧ Gen.full_corr_axes = "(-2, -1)" ∧
    Gen.full_corr_spec = "template * spec_part" := by
  refine ⟨rfl, rfl, rfl, rfl, rfl, rfl, rfl, rfl, rfl, rfl, rfl⟩

/-- further text of the current source that the model takes for granted (glue between library calls: argument lists, output
allocation, loop bodies) -- a change there is a change of the tie -/
theorem text_pins_more :
    Gen.unravel_body = "sizes = np.zeros(len(shape), dtype=np.int64) ; result = np.zeros(len(shape), dtype=np.int64) ; sizes[-1] = 1 ; for i in range(len(shape) - 2, -1, -1): sizes[i] = sizes[i + 1] * shape[i + 1] ; remainder = index ; for i in range(len(shape)): result[i] = remainder // sizes[i] remainder %= sizes[i] ; return to_fixed_tuple(result, len(shape))" := rfl

end C03
