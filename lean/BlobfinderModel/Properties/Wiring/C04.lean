import BlobfinderModel.Properties.C04
import BlobfinderModel.Gen.Eval
/-!
# C04 — wiring: text of the current source pinned for code that is glue between library calls
(kept apart from the property theorems so that a module importing `Properties.C04` does not depend on these pins)
-/
namespace C04
open Model

/-- the batch entry points return signed centres (repair of D2) … -/
theorem centers_signed :
    Gen.fast_centers_alloc = "np.zeros((len(frames), len(peaks), 2), dtype=np.int16)" ∧
    Gen.full_centers_alloc = "np.zeros((len(frames), len(peaks), 2), dtype=np.int16)" := ⟨rfl, rfl⟩

/-- enabling upsampling changes only the refined positions: the upsampling loop assigns to
`out_refineds` only (and reads `out_centers`) -/
theorem upsample_only_refined :
    Gen.us_loop = "corrspec = corrspecs[i] if corrspec_stack else corrspecs ; center = out_centers[i] ; if corrspec_stack: center = _unshift(center, peaks[i], crop_size) ; out_refineds[i] = refine_center_upsampling(corr_center, center, corrspec, frequencies, upsample_factor=upsample_factor) ; if corrspec_stack: out_refineds[i] = _shift(out_refineds[i], peaks[i], crop_size)"
    ∧ (∀ u : ℤ, Gen.fast_upsample_on u = true ↔ 1 < u) ∧ Gen.fast_upsample_default = 20
    ∧ (∀ u : ℤ, Gen.full_upsample_on u = true ↔ 1 < u) ∧ Gen.full_upsample_default = 20 := by
  refine ⟨rfl, ?_, rfl, ?_, rfl⟩ <;> intro u <;> simp [Gen.fast_upsample_on, Gen.full_upsample_on]

/-- further text of the current source that the model takes for granted (glue between library calls: argument lists, output
allocation, loop bodies) -- a change there is a change of the tie -/
theorem text_pins_more :
    Gen.unravel_body = "sizes = np.zeros(len(shape), dtype=np.int64) ; result = np.zeros(len(shape), dtype=np.int64) ; sizes[-1] = 1 ; for i in range(len(shape) - 2, -1, -1): sizes[i] = sizes[i + 1] * shape[i + 1] ; remainder = index ; for i in range(len(shape)): result[i] = remainder // sizes[i] remainder %= sizes[i] ; return to_fixed_tuple(result, len(shape))" ∧
    Gen.us_tail = "maxima = np.unravel_index(np.abs(cross_correlation_us).argmax(), cross_correlation_us.shape) ; maxima = np.stack(maxima).astype(np.float32, copy=False) ; maxima -= dftshift ; shift += maxima / upsample_factor ; shift += corrmap_center ; return shift.astype(np.float32)" ∧
    Gen.us_dft_body = "im2pi = -1j * 2 * np.pi ; upsampled = corrspecs ; for ax_freq, ax_offset in zip(frequencies[::-1], axis_offsets[::-1]): kernel = np.linspace(-ax_offset, -ax_offset + upsampled_region_size - 1, num=int(upsampled_region_size)) kernel = np.exp(kernel[:, None] * ax_freq * im2pi, dtype=np.complex64) upsampled = np.tensordot(kernel, upsampled, axes=(1, -1)) ; return upsampled" ∧
    Gen.fast_refineds_alloc = "np.zeros((len(frames), len(peaks), 2), dtype=np.float32)" ∧
    Gen.fast_heights_alloc = "np.zeros((len(frames), len(peaks)), dtype=np.float32)" ∧
    Gen.fast_elevations_alloc = "np.zeros((len(frames), len(peaks)), dtype=np.float32)" ∧
    Gen.full_refineds_alloc = "np.zeros((len(frames), len(peaks), 2), dtype=np.float32)" ∧
    Gen.full_heights_alloc = "np.zeros((len(frames), len(peaks)), dtype=np.float32)" ∧
    Gen.full_elevations_alloc = "np.zeros((len(frames), len(peaks)), dtype=np.float32)" ∧
    Gen.full_buf_count = "correlation.get_buf_count(crop_size, len(peaks), frame_buf.dtype)" := ⟨rfl, rfl, rfl, rfl, rfl, rfl, rfl, rfl, rfl, rfl⟩

/-- the batch helpers as written (peak list handling, buffer allocation, loop over the frames): glue the model takes for granted
-- a change there is a change of the tie -/
theorem text_pins_wrappers :
    Gen.fast_wrapper_body = "crop_size = pattern.get_crop_size() ; template = pattern.get_template(sig_shape=(2 * crop_size, 2 * crop_size)) ; centers = np.zeros((len(frames), len(peaks), 2), dtype=np.int16) ; refineds = np.zeros((len(frames), len(peaks), 2), dtype=np.float32) ; heights = np.zeros((len(frames), len(peaks)), dtype=np.float32) ; elevations = np.zeros((len(frames), len(peaks)), dtype=np.float32) ; crop_bufs = correlation.allocate_crop_bufs(crop_size, len(peaks), np.result_type(frames.dtype, np.float32)) ; for i, f in enumerate(frames): correlation.process_frame_fast(template=template, crop_size=crop_size, frame=f, peaks=peaks.astype(np.int32), out_centers=centers[i], out_refineds=refineds[i], out_heights=heights[i], out_elevations=elevations[i], crop_bufs=crop_bufs, upsample=upsample) ; return (centers, refineds, heights, elevations)" ∧
    Gen.full_wrapper_body = "crop_size = pattern.get_crop_size() ; template = pattern.get_template(sig_shape=frames[0].shape) ; centers = np.zeros((len(frames), len(peaks), 2), dtype=np.int16) ; refineds = np.zeros((len(frames), len(peaks), 2), dtype=np.float32) ; heights = np.zeros((len(frames), len(peaks)), dtype=np.float32) ; elevations = np.zeros((len(frames), len(peaks)), dtype=np.float32) ; frame_buf = correlation.zeros(frames[0].shape, dtype=np.float32) ; buf_count = correlation.get_buf_count(crop_size, len(peaks), frame_buf.dtype) ; for i, f in enumerate(frames): correlation.process_frame_full(template=template, crop_size=crop_size, frame=f, peaks=peaks.astype(np.int32), out_centers=centers[i], out_refineds=refineds[i], out_heights=heights[i], out_elevations=elevations[i], frame_buf=frame_buf, buf_count=buf_count, upsample=upsample) ; return (centers, refineds, heights, elevations)" := ⟨rfl, rfl⟩

end C04
