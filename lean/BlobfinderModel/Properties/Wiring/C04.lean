import BlobfinderModel.Properties.C04
/-!
# C04 — wiring: text of the current source pinned for code that is glue between library calls
(kept apart from the property theorems so that a module importing `Properties.C04` does not depend on these pins)
-/
namespace C04
open Model

/-- the batch entry points return signed centres (repair of D2) … -/
theorem centers_signed :
    Gen.fast_centers_alloc = "np.zeros((len(frames), len(peaks), 2), dtype=np.int16)" ∧
    Gen.full_centers_alloc = "np.zeros((len(frames), len(peaks), 2), dtype=np.int16)" := ⟨rfl, rfl⟩

/-- enabling upsampling changes only the refined positions: the upsampling loop assigns to
`out_refineds` only (and reads `out_centers`) -/
theorem upsample_only_refined :
    Gen.us_loop = "corrspec = corrspecs[i] if corrspec_stack else corrspecs ; center = out_centers[i] ; if corrspec_stack: center = _unshift(center, peaks[i], crop_size) ; out_refineds[i] = refine_center_upsampling(corr_center, center, corrspec, frequencies, upsample_factor=upsample_factor) ; if corrspec_stack: out_refineds[i] = _shift(out_refineds[i], peaks[i], crop_size)"
    ∧ (∀ u : ℤ, Gen.fast_upsample_on u = true ↔ 1 < u) ∧ Gen.fast_upsample_default = 20
    ∧ (∀ u : ℤ, Gen.full_upsample_on u = true ↔ 1 < u) ∧ Gen.full_upsample_default = 20 := by
  refine ⟨rfl, ?_, rfl, ?_, rfl⟩ <;> intro u <;> simp [Gen.fast_upsample_on, Gen.full_upsample_on]

end C04
