import BlobfinderModel.Properties.C05
/-!
# C05 — wiring: text of the current source pinned for code that is glue between library calls
(kept apart from the property theorems so that a module importing `Properties.C05` does not depend on these pins)
-/
namespace C05
open Model

/-- source text of `_match_all` and `fastmatch` (what is computed from what) -/
theorem wiring :
    Gen.ma_indices = "get_indices(point_selection.refineds, zero, a, b)" ∧
    Gen.ma_rounded = "np.around(indices)" ∧
    Gen.ma_index_diffs = "np.absolute(indices - rounded)" ∧
    Gen.ma_diffs = "index_diffs * (np.linalg.norm(a), np.linalg.norm(b))" ∧
    Gen.ma_scaled_diffs = "diffs / np.maximum(1, np.abs(indices)) ** 0.5" ∧
    Gen.ma_errors = "np.linalg.norm(scaled_diffs, axis=1)" ∧
    Gen.ma_matched_indices = "rounded[matched_selector].astype(int)" ∧
    Gen.ma_new_selector = "point_selection.new_selector(matched_selector)" ∧
    Gen.new_selector_body = "new_selector = np.copy(self.selector) ; new_selector[self.selector] = selector ; return new_selector" ∧
    Gen.match_all_tail = "Match.from_point_selection(point_selection, selector=new_selector, zero=zero, a=a, b=b, indices=matched_indices)" ∧
    Gen.fm_handlers = "np.linalg.LinAlgError -> return Match.invalid(corr)" ∧
    Gen.fm_try_body = "match1 = self._match_all(point_selection=selection, zero=zero, a=a, b=b) ; if len(match1) >= self.min_match: match1 = match1.weighted_optimize() else: raise np.linalg.LinAlgError('Not enough matched points') ; match2 = self._match_all(point_selection=selection, zero=match1.zero, a=match1.a, b=match1.b) ; return match2.weighted_optimize()" ∧
    Gen.invalid_body = "nanvec = np.array([np.nan, np.nan]) ; return cls(correlation_result=correlation_result, selector=np.zeros(len(correlation_result), dtype=bool), zero=nanvec, a=nanvec, b=nanvec, indices=np.array([]))" := by
  refine ⟨rfl, rfl, rfl, rfl, rfl, rfl, rfl, rfl, rfl, rfl, rfl, rfl, rfl⟩

/-- glue the model takes for granted (batch helpers / result containers as written) -- a change there is a change of the tie -/
theorem text_pins_glue :
    Gen.corrresult_init_body = "if refineds is None: refineds = centers ; if peak_values is None: peak_values = np.ones(len(centers)) ; if peak_elevations is None: peak_elevations = np.ones(len(centers)) ; assert all((len(centers) == len(other) for other in [refineds, peak_values, peak_elevations])) ; self.centers = centers ; self.refineds = refineds ; self.peak_values = peak_values ; self.peak_elevations = peak_elevations" ∧
    Gen.pointsel_init_body = "self.correlation_result = correlation_result ; if selector is None: self.selector = np.ones(len(correlation_result.centers), dtype=bool) else: assert len(correlation_result.centers) == len(selector) self.selector = selector" ∧
    Gen.pointsel_new_selector_body = "new_selector = np.copy(self.selector) ; new_selector[self.selector] = selector ; return new_selector" ∧
    Gen.pointsel_derive_body = "if selector is None: selector = self.selector ; return PointSelection(self.correlation_result, selector)" ∧
    Gen.match_invalid_body = "nanvec = np.array([np.nan, np.nan]) ; return cls(correlation_result=correlation_result, selector=np.zeros(len(correlation_result), dtype=bool), zero=nanvec, a=nanvec, b=nanvec, indices=np.array([]))" ∧
    Gen.match_derive_body = "if zero is None: zero = self.zero ; if a is None: a = self.a ; if b is None: b = self.b ; if indices is None: indices = self.indices ; if selector is None: selector = self.selector ; return Match(correlation_result=self.correlation_result, selector=selector, zero=zero, a=a, b=b, indices=indices)" ∧
    Gen.match_from_selection_body = "if selector is None: selector = point_selection.selector ; return Match(correlation_result=point_selection.correlation_result, selector=selector, zero=zero, a=a, b=b, indices=indices)" := ⟨rfl, rfl, rfl, rfl, rfl, rfl, rfl⟩

/-- the fit `fastmatch` runs on the matched peaks and the error it reports (modelled in `Model.Lattice`, proved in C06) -/
theorem text_pins_fit :
    Gen.wopt_body = "indices = np.hstack([np.ones((len(self.indices), 1)), self.indices]) ; W = np.vstack([self.peak_elevations, self.peak_elevations]) ; Aw = indices * np.sqrt(self.peak_elevations[:, np.newaxis]) ; Bw = self.refineds * np.sqrt(W.T) ; x, residuals, rank, s = np.linalg.lstsq(Aw, Bw, rcond=None) ; if x.size == 0: raise np.linalg.LinAlgError('Optimizing returned empty result') ; zero, a, b = x ; return self.derive(zero=zero, a=a, b=b)"
    ∧ Gen.error_body = "if len(self) > 0: diff = np.linalg.norm(self.refineds - self.calculated_refineds, axis=1) return (diff * self.peak_elevations).mean() / self.peak_elevations.mean() else: return np.inf" := by
  refine ⟨rfl, rfl⟩


end C05
