import BlobfinderModel.Properties.C06
/-!
# C06 — wiring: text of the current source pinned for code that is glue between library calls
(kept apart from the property theorems so that a module importing `Properties.C06` does not depend on these pins)
-/
namespace C06
open Model

/-- what is fitted, with which weights, and that nothing is selected away: pinned source text of
`weighted_optimize` (rows scaled by sqrt(elevation) = weights are the elevations), `optimize`
(unweighted), `error` and `affinematch` (selector=None = all points) -/
theorem wiring :
    Gen.wopt_body = "indices = np.hstack([np.ones((len(self.indices), 1)), self.indices]) ; W = np.vstack([self.peak_elevations, self.peak_elevations]) ; Aw = indices * np.sqrt(self.peak_elevations[:, np.newaxis]) ; Bw = self.refineds * np.sqrt(W.T) ; x, residuals, rank, s = np.linalg.lstsq(Aw, Bw, rcond=None) ; if x.size == 0: raise np.linalg.LinAlgError('Optimizing returned empty result') ; zero, a, b = x ; return self.derive(zero=zero, a=a, b=b)"
    ∧ Gen.opt_body = "indices = np.hstack([np.ones((len(self.indices), 1)), self.indices]) ; x, residuals, rank, s = np.linalg.lstsq(indices, self.refineds, rcond=None) ; if x.size == 0: raise np.linalg.LinAlgError('Optimizing returned empty result') ; zero, a, b = x ; return self.derive(zero=zero, a=a, b=b)"
    ∧ Gen.error_body = "if len(self) > 0: diff = np.linalg.norm(self.refineds - self.calculated_refineds, axis=1) return (diff * self.peak_elevations).mean() / self.peak_elevations.mean() else: return np.inf"
    ∧ Gen.affinematch_body = "corr = CorrelationResult(centers, refineds, peak_values, peak_elevations) ; match = Match(corr, selector=None, zero=None, a=None, b=None, indices=indices) ; try: return match.weighted_optimize() except np.linalg.LinAlgError: return Match.invalid(corr)" := by
  refine ⟨rfl, rfl, rfl, rfl⟩

/-- glue the model takes for granted (batch helpers / result containers as written) -- a change there is a change of the tie -/
theorem text_pins_glue :
    Gen.corrresult_init_body = "if refineds is None: refineds = centers ; if peak_values is None: peak_values = np.ones(len(centers)) ; if peak_elevations is None: peak_elevations = np.ones(len(centers)) ; assert all((len(centers) == len(other) for other in [refineds, peak_values, peak_elevations])) ; self.centers = centers ; self.refineds = refineds ; self.peak_values = peak_values ; self.peak_elevations = peak_elevations" ∧
    Gen.match_derive_body = "if zero is None: zero = self.zero ; if a is None: a = self.a ; if b is None: b = self.b ; if indices is None: indices = self.indices ; if selector is None: selector = self.selector ; return Match(correlation_result=self.correlation_result, selector=selector, zero=zero, a=a, b=b, indices=indices)" := ⟨rfl, rfl⟩

end C06
