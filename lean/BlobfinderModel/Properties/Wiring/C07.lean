import BlobfinderModel.Properties.C07
/-!
# C07 — wiring: text of the current source pinned for code that is glue between library calls
(kept apart from the property theorems so that a module importing `Properties.C07` does not depend on these pins)
-/
namespace C07
open Model C01

/-- the map has the frame's shape and is shifted with `ifftshift` (repair of D4) -/
theorem get_correlation_wiring :
    Gen.getcorr_shift = "correlation.fft.ifftshift" ∧ Gen.getcorr_inverse = "correlation.fft.irfft2" ∧
    Gen.getcorr_s = "sum_result.shape" ∧ Gen.getcorr_axes = "" ∧
    Gen.getcorr_template = "match_pattern.get_template(sig_shape=sum_result.shape)" ∧
    Gen.get_peaks_body = "corr = get_correlation(sum_result, match_pattern) ; peaks = peak_local_max(corr, num_peaks=num_peaks) ; return peaks" := by
  refine ⟨rfl, rfl, rfl, rfl, rfl, rfl⟩

end C07
