import BlobfinderModel.Properties.C08
import BlobfinderModel.Gen.Eval
/-!
# C08 — wiring: text of the current source pinned for code that is glue between library calls
(kept apart from the property theorems so that a module importing `Properties.C08` does not depend on these pins)
-/
namespace C08
open Model

/-- Wiring of the block loops: which arrays are sliced how, and the order of the stages. -/
theorem fast_wiring :
    Gen.fast_slices = [("crop_bufs", ":size"), ("out_centers", "start:stop"),
      ("out_elevations", "start:stop"), ("out_heights", "start:stop"),
      ("out_refineds", "start:stop"), ("peaks", "start:stop")] ∧
    Gen.fast_calls = ["crop_function", "log_scale_cropbufs_inplace", "do_correlations",
      "evaluate_correlations", "evaluate_upsampling"] := by
  constructor <;> rfl

theorem full_wiring :
    Gen.full_slices = [("crop_bufs", ":size"), ("out_centers", "start:stop"),
      ("out_elevations", "start:stop"), ("out_heights", "start:stop"),
      ("out_refineds", "start:stop"), ("peaks", "start:stop")] ∧
    Gen.full_calls = ["crop_function", "evaluate_correlations", "evaluate_upsampling"] := by
  constructor <;> rfl

/-- glue the model takes for granted (batch helpers / result containers as written) -- a change there is a change of the tie -/
theorem text_pins_glue :
    Gen.fast_wrapper_body = "crop_size = pattern.get_crop_size() ; template = pattern.get_template(sig_shape=(2 * crop_size, 2 * crop_size)) ; centers = np.zeros((len(frames), len(peaks), 2), dtype=np.int16) ; refineds = np.zeros((len(frames), len(peaks), 2), dtype=np.float32) ; heights = np.zeros((len(frames), len(peaks)), dtype=np.float32) ; elevations = np.zeros((len(frames), len(peaks)), dtype=np.float32) ; crop_bufs = correlation.allocate_crop_bufs(crop_size, len(peaks), np.result_type(frames.dtype, np.float32)) ; for i, f in enumerate(frames): correlation.process_frame_fast(template=template, crop_size=crop_size, frame=f, peaks=peaks.astype(np.int32), out_centers=centers[i], out_refineds=refineds[i], out_heights=heights[i], out_elevations=elevations[i], crop_bufs=crop_bufs, upsample=upsample) ; return (centers, refineds, heights, elevations)" ∧
    Gen.full_wrapper_body = "crop_size = pattern.get_crop_size() ; template = pattern.get_template(sig_shape=frames[0].shape) ; centers = np.zeros((len(frames), len(peaks), 2), dtype=np.int16) ; refineds = np.zeros((len(frames), len(peaks), 2), dtype=np.float32) ; heights = np.zeros((len(frames), len(peaks)), dtype=np.float32) ; elevations = np.zeros((len(frames), len(peaks)), dtype=np.float32) ; frame_buf = correlation.zeros(frames[0].shape, dtype=np.float32) ; buf_count = correlation.get_buf_count(crop_size, len(peaks), frame_buf.dtype) ; for i, f in enumerate(frames): correlation.process_frame_full(template=template, crop_size=crop_size, frame=f, peaks=peaks.astype(np.int32), out_centers=centers[i], out_refineds=refineds[i], out_heights=heights[i], out_elevations=elevations[i], frame_buf=frame_buf, buf_count=buf_count, upsample=upsample) ; return (centers, refineds, heights, elevations)" := ⟨rfl, rfl⟩

end C08
