import BlobfinderModel.Properties.C08
/-!
# C08 — wiring: text of the current source pinned for code that is glue between library calls
(kept apart from the property theorems so that a module importing `Properties.C08` does not depend on these pins)
-/
namespace C08
open Model

/-- Wiring of the block loops: which arrays are sliced how, and the order of the stages. -/
theorem fast_wiring :
    Gen.fast_slices = [("crop_bufs", ":size"), ("out_centers", "start:stop"),
      ("out_elevations", "start:stop"), ("out_heights", "start:stop"),
      ("out_refineds", "start:stop"), ("peaks", "start:stop")] ∧
    Gen.fast_calls = ["crop_function", "log_scale_cropbufs_inplace", "do_correlations",
      "evaluate_correlations", "evaluate_upsampling"] := by
  constructor <;> rfl

theorem full_wiring :
    Gen.full_slices = [("crop_bufs", ":size"), ("out_centers", "start:stop"),
      ("out_elevations", "start:stop"), ("out_heights", "start:stop"),
      ("out_refineds", "start:stop"), ("peaks", "start:stop")] ∧
    Gen.full_calls = ["crop_function", "evaluate_correlations", "evaluate_upsampling"] := by
  constructor <;> rfl

end C08
