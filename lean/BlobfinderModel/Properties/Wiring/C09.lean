import BlobfinderModel.Properties.C09
import BlobfinderModel.Gen.Patterns
/-!
# C09 — wiring: text of the current source pinned for code that is glue between library calls
(kept apart from the property theorems so that a module importing `Properties.C09` does not depend on these pins)
-/
namespace C09
open Model

/-- The full-frame pipeline shares no crop buffers between calls (allocated per call) and
overwrites its frame buffer completely before using it (`log_scale(frame, out=frame_buf)`
followed by `rfft2(frame_buf)`). -/
theorem full_buffers_fresh :
    Gen.full_crop_bufs_fresh = true ∧ Gen.full_log_arg = "frame" ∧ Gen.full_log_out = "frame_buf"
      ∧ Gen.full_fft_input = "fft.rfft2(frame_buf)" := by
  refine ⟨rfl, rfl, rfl, rfl⟩

/-- the array `UserTemplate.get_mask` hands out is a copy of the template, padded / cropped: writing to it does not reach the
pattern object (no state leaks through a returned mask) -/
theorem user_mask_is_a_copy :
    Gen.ut_init_expr = "self.template.copy()"
    ∧ Gen.ut_return_expr = "result.astype(self.template.dtype)"
    ∧ Gen.ut_tail = "assert result.shape == tuple(sig_shape) ; return result.astype(self.template.dtype)" := by
  refine ⟨rfl, rfl, rfl⟩


end C09
