import BlobfinderModel.Properties.C10
/-!
# C10 — wiring: text of the current source pinned for code that is glue between library calls
(kept apart from the property theorems so that a module importing `Properties.C10` does not depend on these pins)
-/
namespace C10
open Model

theorem udf_wiring :
    Gen.corr_init = "super().__init__(*args, peaks=np.round(peaks).astype(int), zero_shift=zero_shift, **kwargs)"
    ∧ Gen.get_zero_shift_body = "if self.params.zero_shift is None: result = np.array((0, 0)) elif index is None: result = self.params.zero_shift else: result = self.params.zero_shift if np.ndim(result) > 1: result = result[index] ; return result"
    ∧ Gen.udf_fast_call = "ltbc.process_frame_fast"
    ∧ Gen.udf_fast_arg_peaks = "self.get_peaks() + np.round(self.get_zero_shift()).astype(int)"
    ∧ Gen.udf_fast_arg_crop_bufs = "self.task_data.crop_bufs"
    ∧ Gen.udf_fast_arg_crop_function = "self.task_data.crop_function"
    ∧ Gen.udf_fast_arg_upsample = "self.params.get('upsample', False)"
    ∧ Gen.udf_fast_arg_crop_size = "match_pattern.get_crop_size()"
    ∧ Gen.udf_fast_arg_frame = "frame"
    ∧ Gen.udf_full_call = "ltbc.process_frame_full"
    ∧ Gen.udf_full_arg_peaks = "self.get_peaks() + np.round(self.get_zero_shift()).astype(int)"
    ∧ Gen.udf_full_arg_frame_buf = "self.task_data.frame_buf"
    ∧ Gen.udf_full_arg_buf_count = "self.task_data.buf_count"
    ∧ Gen.udf_full_arg_crop_function = "self.task_data.crop_function"
    ∧ Gen.udf_full_arg_upsample = "self.params.get('upsample', False)"
    ∧ Gen.udf_full_arg_crop_size = "match_pattern.get_crop_size()"
    ∧ Gen.udf_output_buffers = "r = self.results ; return (r.centers, r.refineds, r.peak_values, r.peak_elevations)" := by
  refine ⟨rfl, rfl, rfl, rfl, rfl, rfl, rfl, rfl, rfl, rfl, rfl, rfl, rfl, rfl, rfl, rfl, rfl⟩

theorem task_data_wiring :
    Gen.udf_fast_task_data = "n_peaks = len(self.get_peaks()) ; mask = self.get_pattern() ; crop_size = mask.get_crop_size() ; template = self.xp.array(mask.get_template(sig_shape=(2 * crop_size, 2 * crop_size))) ; dtype = np.result_type(self.meta.input_dtype, np.float32) ; crop_bufs = ltbc.allocate_crop_bufs(crop_size, n_peaks, dtype=dtype, limit=self.limit, xp=self.xp) ; if self.meta.array_backend in (self.BACKEND_SPARSE_COO, self.BACKEND_SPARSE_GCXS, self.BACKEND_CUPY): crop_function = ltbc.crop_disks_from_frame_slicing elif self.meta.array_backend in (self.BACKEND_NUMPY,): crop_function = ltbc.crop_disks_from_frame else: raise RuntimeError(f'Unsupported array backend {self.meta.array_backend}') ; kwargs = {'crop_bufs': crop_bufs, 'template': template, 'crop_function': crop_function} ; return kwargs"
    ∧ Gen.udf_full_task_data = "mask = self.get_pattern() ; n_peaks = len(self.params.peaks) ; template = self.xp.array(mask.get_template(sig_shape=self.meta.dataset_shape.sig)) ; dtype = np.result_type(self.meta.input_dtype, np.float32) ; frame_buf = self.xp.array(ltbc.zeros(shape=self.meta.dataset_shape.sig, dtype=dtype)) ; crop_size = mask.get_crop_size() ; if self.meta.array_backend in (self.BACKEND_SPARSE_COO, self.BACKEND_SPARSE_GCXS, self.BACKEND_CUPY): crop_function = ltbc.crop_disks_from_frame_slicing elif self.meta.array_backend in (self.BACKEND_NUMPY,): crop_function = ltbc.crop_disks_from_frame else: raise RuntimeError(f'Unsupported array backend {self.meta.array_backend}') ; kwargs = {'template': template, 'frame_buf': frame_buf, 'buf_count': ltbc.get_buf_count(crop_size, n_peaks, dtype, self.limit), 'crop_function': crop_function} ; return kwargs"
    ∧ Gen.udf_result_buffers = "num_disks = len(self.params.peaks) ; return {'centers': self.buffer(kind='nav', extra_shape=(num_disks, 2), dtype=np.int32), 'refineds': self.buffer(kind='nav', extra_shape=(num_disks, 2), dtype='float32'), 'peak_values': self.buffer(kind='nav', extra_shape=(num_disks,), dtype='float32'), 'peak_elevations': self.buffer(kind='nav', extra_shape=(num_disks,), dtype='float32')}" := by
  refine ⟨rfl, rfl, rfl⟩

theorem sparse_wiring :
    Gen.sparse_init = "super().__init__(*args, peaks=peaks, match_pattern=match_pattern, steps=steps, **kwargs) ; if self.params.zero_shift is not None: raise ValueError('Parameter zero_shift not supported for SparseCorrelationUDF')"
    ∧ Gen.sparse_process_tile = "tile_slice = self.meta.slice ; c = self.task_data.mask_container ; tile_t = ltbc.log_scale(tile.reshape((tile.shape[0], -1)).T, out=None) ; sl = c.get(key=tile_slice, transpose=False) ; self.results.corr[:] += self.forbuf(sl.dot(tile_t).T, self.results.corr)"
    ∧ Gen.sparse_postprocess = "steps = 2 * self.params.steps + 1 ; corrmaps = self.results.corr.reshape((-1, len(self.params.peaks), steps, steps)) ; peaks = self.params.peaks ; centers, refineds, peak_values, peak_elevations = self.output_buffers() ; for f in range(corrmaps.shape[0]): ltbc.evaluate_correlations(corrs=corrmaps[f], peaks=peaks, crop_size=self.params.steps, out_centers=centers[f], out_refineds=refineds[f], out_heights=peak_values[f], out_elevations=peak_elevations[f])"
    ∧ Gen.sparse_result_buffers = "super_buffers = super().get_result_buffers() ; num_disks = len(self.params.peaks) ; steps = self.params.steps * 2 + 1 ; my_buffers = {'corr': self.buffer(kind='nav', extra_shape=(num_disks * steps ** 2,), dtype='float32')} ; super_buffers.update(my_buffers) ; return super_buffers"
    ∧ Gen.sparse_task_data = "match_pattern = self.params.match_pattern ; crop_size = match_pattern.get_crop_size() ; size = (2 * crop_size + 1, 2 * crop_size + 1) ; template = match_pattern.get_mask(sig_shape=size) ; steps = self.params.steps ; peak_offsetY, peak_offsetX = np.mgrid[-steps:steps + 1, -steps:steps + 1] ; offsetY = self.params.peaks[:, 0, np.newaxis, np.newaxis] + peak_offsetY - crop_size ; offsetX = self.params.peaks[:, 1, np.newaxis, np.newaxis] + peak_offsetX - crop_size ; offsetY = offsetY.flatten() ; offsetX = offsetX.flatten() ; stack = functools.partial(masks.sparse_template_multi_stack, mask_index=range(len(offsetY)), offsetX=offsetX, offsetY=offsetY, template=template, imageSizeX=self.meta.dataset_shape.sig[1], imageSizeY=self.meta.dataset_shape.sig[0]) ; if self.meta.array_backend in sparseconverter.CPU_BACKENDS: backend = 'numpy' elif self.meta.array_backend in sparseconverter.CUDA_BACKENDS: backend = 'cupy' else: raise ValueError('Unknown device class') ; if self.meta.array_backend == self.BACKEND_SPARSE_COO: use_sparse = 'sparse.pydata' elif self.meta.array_backend == self.BACKEND_SPARSE_GCXS: use_sparse = 'sparse.pydata.GCXS' elif self.meta.array_backend in (self.BACKEND_CUPY, self.BACKEND_NUMPY): use_sparse = 'scipy.sparse.csc' else: raise RuntimeError(f'Unsupported array backend {self.meta.array_backend}') ; container = MaskContainer(mask_factories=stack, dtype=np.float32, use_sparse=use_sparse, backend=backend) ; kwargs = {'mask_container': container, 'crop_size': crop_size} ; return kwargs" := by
  refine ⟨rfl, rfl, rfl, rfl, rfl⟩

/-- further text of the current source that the model takes for granted (glue between library calls: argument lists, output
allocation, loop bodies) -- a change there is a change of the tie -/
theorem text_pins_more :
    Gen.udf_fast_arg_template = "self.get_template()" ∧
    Gen.udf_fast_arg_out_centers = "centers" ∧
    Gen.udf_fast_arg_out_refineds = "refineds" ∧
    Gen.udf_fast_arg_out_heights = "peak_values" ∧
    Gen.udf_fast_arg_out_elevations = "peak_elevations" ∧
    Gen.udf_full_arg_template = "self.get_template()" ∧
    Gen.udf_full_arg_frame = "frame" ∧
    Gen.udf_full_arg_out_centers = "centers" ∧
    Gen.udf_full_arg_out_refineds = "refineds" ∧
    Gen.udf_full_arg_out_heights = "peak_values" ∧
    Gen.udf_full_arg_out_elevations = "peak_elevations" := ⟨rfl, rfl, rfl, rfl, rfl, rfl, rfl, rfl, rfl, rfl, rfl⟩

end C10
