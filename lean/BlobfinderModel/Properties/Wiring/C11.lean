import BlobfinderModel.Properties.C11
/-!
# C11 — wiring: text of the current source pinned for code that is glue between library calls
(kept apart from the property theorems so that a module importing `Properties.C11` does not depend on these pins)
-/
namespace C11
open Model

theorem refine_wiring :
    Gen.fastmatch_postprocess = "super().postprocess() ; p = self.params ; r = self.results ; for index in range(len(self.results.centers)): match = p.matcher.fastmatch(centers=r.centers[index], refineds=r.refineds[index], peak_values=r.peak_values[index], peak_elevations=r.peak_elevations[index], zero=p.start_zero + self.get_zero_shift(index), a=p.start_a, b=p.start_b) self.apply_match(index, match)"
    ∧ Gen.affine_postprocess = "super().postprocess() ; p = self.params ; r = self.results ; for index in range(len(self.results.centers)): match = p.matcher.affinematch(centers=r.centers[index], refineds=r.refineds[index], peak_values=r.peak_values[index], peak_elevations=r.peak_elevations[index], indices=p.indices) self.apply_match(index, match)"
    ∧ Gen.apply_match_body = "r = self.results ; r.zero[index] = match.zero ; r.a[index] = match.a ; r.b[index] = match.b ; r.selector[index] = match.selector ; r.error[index] = match.error"
    ∧ Gen.refine_frame_peaks_args = "fy=fy, fx=fx, zero=zero, a=a, b=b, r=match_pattern.search, indices=indices"
    ∧ Gen.refine_peaks_cast = "peaks.astype('int')"
    ∧ Gen.refine_bases = "mixin, method"
    ∧ Gen.refine_udf_kwargs = "peaks=peaks, indices=indices, start_zero=zero, start_a=a, start_b=b, match_pattern=match_pattern, matcher=matcher, steps=steps, zero_shift=zero_shift, upsample=upsample"
    ∧ Gen.refine_return = "(result, indices)"
    ∧ Gen.get_zero_shift_body = "if self.params.zero_shift is None: result = np.array((0, 0)) elif index is None: result = self.params.zero_shift else: result = self.params.zero_shift if np.ndim(result) > 1: result = result[index] ; return result" := by
  refine ⟨rfl, rfl, rfl, rfl, rfl, rfl, rfl, rfl, rfl⟩

theorem integration_wiring :
    Gen.integration_process_frame = "crop_size = self.params.pattern.get_crop_size() ; crop_disks_from_frame(peaks=self.params.centers, frame=frame, crop_size=crop_size, out_crop_bufs=self.task_data.crop_bufs) ; self.results.integration[:] = np.sum(self.task_data.crop_bufs * self.task_data.pattern, axis=(-1, -2))"
    ∧ Gen.integration_task_data = "n_peaks = self.params.centers.shape[-2] ; mask = self.params.pattern ; crop_size = mask.get_crop_size() ; pattern = mask.get_mask(sig_shape=(2 * crop_size, 2 * crop_size)) ; dtype = np.result_type(self.meta.input_dtype, np.float32) ; crop_bufs = allocate_crop_bufs(crop_size, n_peaks, dtype=dtype, limit=1000000000000.0) ; kwargs = {'crop_bufs': crop_bufs, 'pattern': pattern} ; return kwargs"
    ∧ Gen.integration_result_buffers = "dtype = np.result_type(self.meta.input_dtype, np.float32) ; return {'integration': self.buffer(kind='nav', extra_shape=(self.params.centers.shape[-2],), dtype=dtype)}" := by
  refine ⟨rfl, rfl, rfl⟩

/-- further text of the current source that the model takes for granted (glue between library calls: argument lists, output
allocation, loop bodies) -- a change there is a change of the tie -/
theorem text_pins_more :
    Gen.refine_result_buffers = "super_buffers = super().get_result_buffers() ; num_disks = len(self.params.peaks) ; my_buffers = {'zero': self.buffer(kind='nav', extra_shape=(2,), dtype='float32'), 'a': self.buffer(kind='nav', extra_shape=(2,), dtype='float32'), 'b': self.buffer(kind='nav', extra_shape=(2,), dtype='float32'), 'selector': self.buffer(kind='nav', extra_shape=(num_disks,), dtype='bool'), 'error': self.buffer(kind='nav', dtype='float32')} ; super_buffers.update(my_buffers) ; return super_buffers" := rfl

end C11
