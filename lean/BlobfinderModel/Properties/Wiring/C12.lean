import BlobfinderModel.Properties.C12
/-!
# C12 — wiring: text of the current source pinned for code that is glue between library calls
(kept apart from the property theorems so that a module importing `Properties.C12` does not depend on these pins)
-/
namespace C12
open Model

theorem loop_wiring :
    Gen.fullm_tail = "if matches: new_selector[zero_selector] = False ; unmatched = working_set.derive(selector=new_selector) ; weak = grm.PointSelection(corr, selector=np.logical_not(filt)) ; return (matches, unmatched, weak)"
    ∧ Gen.fullm_working_init = "grm.PointSelection(corr, selector=filt)" := ⟨rfl, rfl⟩

end C12
