import BlobfinderModel.Properties.C12
/-!
# C12 — wiring: text of the current source pinned for code that is glue between library calls
(kept apart from the property theorems so that a module importing `Properties.C12` does not depend on these pins)
-/
namespace C12
open Model

theorem loop_wiring :
    Gen.fullm_tail = "if matches: new_selector[zero_selector] = False ; unmatched = working_set.derive(selector=new_selector) ; weak = grm.PointSelection(corr, selector=np.logical_not(filt)) ; return (matches, unmatched, weak)"
    ∧ Gen.fullm_working_init = "grm.PointSelection(corr, selector=filt)" := ⟨rfl, rfl⟩

/-- further text of the current source that the model takes for granted (glue between library calls: argument lists, output
allocation, loop bodies) -- a change there is a change of the tie -/
theorem text_pins_more :
    Gen.fullm_loop = "new_selector = np.copy(working_set.selector) ; polar_candidate_vectors = candidate_methods[0](working_set, polar_cand) ; match = self._find_best_vector_match(point_selection=working_set, zero=zero, candidates=polar_candidate_vectors) ; if match is None: candidate_methods = candidate_methods[1:] if len(candidate_methods) == 0: break else: continue ; matches.append(match) ; new_selector[match.selector] = False ; if np.count_nonzero(new_selector) >= self.min_match: new_selector[zero_selector] = True working_set = working_set.derive(selector=new_selector) else: break" ∧
    Gen.fullm_zero_selector = "np.array([np.allclose(corr.centers[i], zero) + np.allclose(corr.refineds[i], zero) for i in range(len(corr))], dtype=bool)" ∧
    Gen.fullm_methods = "if cand is not None: polar_cand = size_filter(make_polar(np.array(cand)), min_delta=self.min_delta, max_delta=self.max_delta) candidate_methods = [listed, guess] else: polar_cand = None candidate_methods = [guess]" ∧
    Gen.do_match_body = "match_list = [] ; for i in range(len(polar_vectors)): for j in range(i + 1, len(polar_vectors)): a = polar_vectors[i] b = polar_vectors[j] if not angle_check(np.array([a]), np.array([b]), self.min_angle): continue if a[0] > b[0]: bb = a aa = b else: aa = a bb = b aa, bb = make_cartesian(np.array([aa, bb])) try: match = self._match_all(point_selection=point_selection, zero=zero, a=aa, b=bb) match = self._tumble(point_selection, match) except np.linalg.LinAlgError: continue if match is not None: match_list.append(match) ; return match_list" := ⟨rfl, rfl, rfl, rfl⟩

/-- the figure of merit that ranks the candidate matches (`Model.fomWritten`) -/
theorem text_pins_fom :
    Gen.fom_body = "na = np.linalg.norm(m.a) ; nb = np.linalg.norm(m.b) ; res = np.sum(m.peak_elevations) ** 2 ; res *= np.abs(m.a[0] * m.b[1] - m.a[1] * m.b[0]) / (na * nb) ; res *= na * nb / (na ** 2 + nb ** 2) ; return res" := by
  rfl


end C12
