import BlobfinderModel.Properties.C16
/-!
# C16 — wiring: text of the current source pinned for code that is glue between library calls
(kept apart from the property theorems so that a module importing `Properties.C16` does not depend on these pins)
-/
namespace C16
open Model

theorem ut_wiring :
    Gen.ut_apply_expr = "fn(result, tuple(((before, after) if ax == i else neutral for i in range(result.ndim))))"
    ∧ Gen.template_expr = "return np.fft.rfft2(self.get_mask(sig_shape))" := ⟨rfl, rfl⟩

/-- what `UserTemplate.get_mask` starts from and returns (a copy in the template's dtype) -/
theorem user_mask_is_a_copy :
    Gen.ut_init_expr = "self.template.copy()"
    ∧ Gen.ut_return_expr = "result.astype(self.template.dtype)"
    ∧ Gen.ut_tail = "assert result.shape == tuple(sig_shape) ; return result.astype(self.template.dtype)" := by
  refine ⟨rfl, rfl, rfl⟩


end C16
