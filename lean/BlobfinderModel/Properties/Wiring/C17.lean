import BlobfinderModel.Properties.C17
/-!
# C17 — wiring: text of the current source pinned for code that is glue between library calls
(kept apart from the property theorems so that a module importing `Properties.C17` does not depend on these pins)
-/
namespace C17
open Model

theorem within_wiring : Gen.within_reduce_expr = "selector.all(axis=-1)" := rfl

theorem layout_wiring :
    Gen.reg_mgrid_expr = "result = np.concatenate(indices.T)" ∧ Gen.reg_list_expr = "result = indices" ∧
    Gen.mc_mgrid_expr = "indices = np.concatenate(indices.T)" ∧
    Gen.calc_coords_body = "coefficients = np.array((a, b)) ; return zero + np.dot(indices, coefficients)" ∧
    Gen.get_indices_body = "coefficients = np.array((a, b)).T ; if abs(np.linalg.det(coefficients)) <= 1e-12 * np.linalg.norm(a) * np.linalg.norm(b): raise np.linalg.LinAlgError('Lattice vectors a and b are parallel or zero') ; target = points - zero ; result = np.linalg.solve(coefficients, target.T).T ; return result" ∧
    Gen.frame_peaks_body = "indices = regularize_indices(indices) ; peaks = calc_coords(zero, a, b, indices) ; selector = within_frame(peaks, r, fy, fx) ; return (indices[selector], peaks[selector])" := by
  refine ⟨rfl, rfl, rfl, rfl, rfl, rfl⟩

theorem drop_zero_wiring : Gen.mc_drop_zero_expr = "np.any(indices != 0, axis=1)" := rfl

/-- further text of the current source that the model takes for granted (glue between library calls: argument lists, output
allocation, loop bodies) -- a change there is a change of the tie -/
theorem text_pins_more :
    Gen.mc_tail = "selector = np.ones(len(indices), dtype=bool) ; if drop_zero: nz = np.any(indices != 0, axis=1) selector *= nz ; peaks = calc_coords(self.zero, self.a, self.b, indices) ; if frame_shape is not None: fy, fx = frame_shape selector *= within_frame(peaks, r, fy, fx) ; return peaks[selector]" := rfl

end C17
