import BlobfinderModel.Properties.C18
/-!
# C18 — wiring: text of the current source pinned for code that is glue between library calls
(kept apart from the property theorems so that a module importing `Properties.C18` does not depend on these pins)
-/
namespace C18
open Model

theorem patch_wiring :
    Gen.patch_before_normalize = true ∧ Gen.patch_only_in_loop = true ∧
    Gen.patch_store_guard = "i == 0 and patch_index is not None" ∧
    (∀ ri : ℚ, Gen.patch_value ri = 1 - ri) ∧
    (∀ yy xx sy sx : ℤ, Gen.patch_inside yy xx sy sx = true ↔ (0 ≤ yy ∧ yy < sy ∧ 0 ≤ xx ∧ xx < sx)) := by
  refine ⟨rfl, rfl, rfl, fun ri => rfl, ?_⟩
  intro yy xx sy sx
  unfold Gen.patch_inside
  simp only [Bool.and_eq_true, decide_eq_true_eq, ge_iff_le]
  tauto

theorem normalize_wiring :
    Gen.normalize_body = "s = vals.sum() ; if not np.isclose(s, 0): vals /= s" := rfl

/-- further text of the current source that the model takes for granted (glue between library calls: argument lists, output
allocation, loop bodies) -- a change there is a change of the tie -/
theorem text_pins_more :
    Gen.bin_centers_expr = "np.linspace(radius_inner, radius - width, n_bins) + width / 2" ∧
    Gen.bin_default_n_expr = "int(np.round(radius - radius_inner))" ∧
    Gen.disk_aa_expr = "radial_bins(centerX, centerY, imageSizeX, imageSizeY, radius, n_bins=1, use_sparse=False)[0]" ∧
    Gen.ring_aa_expr = "radial_bins(centerX, centerY, imageSizeX, imageSizeY, radius=radius, radius_inner=radius_inner, n_bins=1, use_sparse=False)[0]" := ⟨rfl, rfl, rfl, rfl⟩

end C18
