import BlobfinderModel.Properties.C19
/-!
# C19 — wiring: text of the current source pinned for code that is glue between library calls
(kept apart from the property theorems so that a module importing `Properties.C19` does not depend on these pins)
-/
namespace C19
open Model

/-- layers do not interact: the dense value of a layer is a function of that layer's own offset only
(`stampDense` has no other layer's data as an argument); reordering layers reorders results.
The wiring of the COO construction is pinned here. -/
theorem stamp_wiring :
    Gen.stamp_return_expr = "sparse.COO(data=data[selector], coords=(coord_mask[selector], coord_y[selector], coord_x[selector]), shape=(int(max(mask_index) + 1), imageSizeY, imageSizeX))" :=
  rfl

end C19
