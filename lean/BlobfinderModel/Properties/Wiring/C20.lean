import BlobfinderModel.Properties.C20
/-!
# C20 — wiring: text of the current source pinned for code that is glue between library calls
(kept apart from the property theorems so that a module importing `Properties.C20` does not depend on these pins)
-/
namespace C20
open Model

/-- the weights multiply both sides row-wise (hence squared in the objective), the centre is
subtracted on both sides and added back by `do_transformation` -/
theorem transformation_wiring :
    Gen.get_transformation_body = "if center is None: center = np.array((0.0, 0.0)) ; assert ref.shape == peaks.shape ; A = np.hstack((ref - center, np.ones((len(ref), 1)))) ; B = np.hstack((peaks - center, np.ones((len(peaks), 1)))) ; if weighs is None: pass else: assert len(ref) == len(weighs) W = np.vstack((weighs, weighs, weighs)).T A *= W B *= W ; fit, res, rank, s = np.linalg.lstsq(A, B, rcond=None) ; return fit"
    ∧ Gen.do_transformation_body = "if center is None: center = np.array((0, 0)) ; A = np.hstack((peaks - center, np.ones((len(peaks), 1)))) ; B = np.dot(A, matrix) ; return B[:, 0:2] + center"
    ∧ Gen.find_center_body = "target = np.array((0, 0, 1)).T ; diff = np.identity(3) ; diff[2, 2] = 0 ; result = np.linalg.solve((matrix - diff).T, target) ; return result[0:2]" := by
  refine ⟨rfl, rfl, rfl⟩

end C20
