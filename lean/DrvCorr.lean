import BlobfinderModel.Model.Proto
import BlobfinderModel.Model.Crop
import BlobfinderModel.Model.Blocks
/-
Model driver for the correlation pipeline (crop, blocks, evaluation ...).
One operation per input line, one result line per operation.
-/
open Proto Model

def range (n : Int) : List Int := (List.range n.toNat).map (fun (k : Nat) => (k : Int))

def opCropPixel (ws : List String) : String :=
  match ints? ws with
  | some (fy :: fx :: c :: p0 :: p1 :: h :: w :: vals) =>
    if vals.length ≠ (fy * fx).toNat ∨ fy < 0 ∨ fx < 0 ∨ h < 0 ∨ w < 0 then "bad-op" else
    let a := vals.toArray
    let frame : Int → Int → Int := img a fx
    joinInts ((range h).flatMap fun y => (range w).map fun x => cropPixel frame fy fx c p0 p1 y x)
  | _ => "bad-op"

def opCropSlice (ws : List String) : String :=
  match ints? ws with
  | some (fy :: fx :: c :: p0 :: p1 :: h :: w :: oldv :: vals) =>
    if vals.length ≠ (fy * fx).toNat ∨ fy < 0 ∨ fx < 0 ∨ h < 0 ∨ w < 0 then "bad-op" else
    if !cropSliceShapesOk fy fx c p0 p1 h w then "shape-mismatch" else
    let a := vals.toArray
    let frame : Int → Int → Int := img a fx
    joinInts ((range h).flatMap fun y => (range w).map fun x =>
      cropSlice (fun _ _ => oldv) frame fy fx c p0 p1 h w y x)
  | _ => "bad-op"

def opPySlice (ws : List String) : String :=
  match ws with
  | [len, lo, hi] =>
    match len.toInt?, parseOptInt? lo, parseOptInt? hi with
    | some len, some lo, some hi =>
      let l := pySliceLo len lo
      let h := pySliceHi len hi
      s!"{l} {h} {sliceLen l h}"
    | _, _, _ => "bad-op"
  | _ => "bad-op"

def showSched (l : List (Int × Int × Int)) : String :=
  " ".intercalate (l.map fun (s, e, z) => s!"{s}:{e}:{z}")

def opSchedule (ws : List String) : String :=
  match ws with
  | [which, n, b] =>
    match n.toInt?, b.toInt? with
    | some n, some b =>
      if b ≤ 0 ∨ n < 0 then "bad-op" else
      if which = "fast" then showSched (schedule fastArith n b)
      else if which = "full" then showSched (schedule fullArith n b)
      else "bad-op"
    | _, _ => "bad-op"
  | _ => "bad-op"

def opBufCount (ws : List String) : String :=
  match ints? ws with
  | some [c, n, itemsize, limit] =>
    -- the real code raises ZeroDivisionError for a zero-sized crop
    if (2 * c) ^ 2 * itemsize = 0 then "zero-division" else
    toString (Gen.get_buf_count c n itemsize limit)
  | _ => "bad-op"

def step (line : String) : String :=
  match words line with
  | "crop_pixel" :: ws => opCropPixel ws
  | "crop_slice" :: ws => opCropSlice ws
  | "pyslice" :: ws => opPySlice ws
  | "schedule" :: ws => opSchedule ws
  | "bufcount" :: ws => opBufCount ws
  | _ => "bad-op"

def main : IO Unit := run step
