import BlobfinderModel.Model.Proto
import BlobfinderModel.Model.Crop
import BlobfinderModel.Model.Blocks
import BlobfinderModel.Model.Eval
import BlobfinderModel.Model.DType
import BlobfinderModel.Model.Pipeline
/-
Model driver for the correlation pipeline (crop, blocks, evaluation ...).
One operation per input line, one result line per operation.
-/
open Proto Model

def range (n : Int) : List Int := irange n

def opCropPixel (ws : List String) : String :=
  match ints? ws with
  | some (fy :: fx :: c :: p0 :: p1 :: h :: w :: vals) =>
    if vals.length ≠ (fy * fx).toNat ∨ fy < 0 ∨ fx < 0 ∨ h < 0 ∨ w < 0 then "bad-op" else
    let a := vals.toArray
    let frame : Int → Int → Int := img a fx
    joinInts ((range h).flatMap fun y => (range w).map fun x => cropPixel frame fy fx c p0 p1 y x)
  | _ => "bad-op"

def opCropSlice (ws : List String) : String :=
  match ints? ws with
  | some (fy :: fx :: c :: p0 :: p1 :: h :: w :: oldv :: vals) =>
    if vals.length ≠ (fy * fx).toNat ∨ fy < 0 ∨ fx < 0 ∨ h < 0 ∨ w < 0 then "bad-op" else
    if !cropSliceShapesOk fy fx c p0 p1 h w then "shape-mismatch" else
    let a := vals.toArray
    let frame : Int → Int → Int := img a fx
    joinInts ((range h).flatMap fun y => (range w).map fun x =>
      cropSlice (fun _ _ => oldv) frame fy fx c p0 p1 h w y x)
  | _ => "bad-op"

def opPySlice (ws : List String) : String :=
  match ws with
  | [len, lo, hi] =>
    match len.toInt?, parseOptInt? lo, parseOptInt? hi with
    | some len, some lo, some hi =>
      let l := pySliceLo len lo
      let h := pySliceHi len hi
      s!"{l} {h} {sliceLen l h}"
    | _, _, _ => "bad-op"
  | _ => "bad-op"

def showSched (l : List (Int × Int × Int)) : String :=
  " ".intercalate (l.map fun (s, e, z) => s!"{s}:{e}:{z}")

def opSchedule (ws : List String) : String :=
  match ws with
  | [which, n, b] =>
    match n.toInt?, b.toInt? with
    | some n, some b =>
      if b ≤ 0 ∨ n < 0 then "bad-op" else
      if which = "fast" then showSched (schedule fastArith n b)
      else if which = "full" then showSched (schedule fullArith n b)
      else "bad-op"
    | _, _ => "bad-op"
  | _ => "bad-op"

def opBufCount (ws : List String) : String :=
  match ints? ws with
  | some [c, n, itemsize, limit] =>
    -- the real code raises ZeroDivisionError for a zero-sized crop
    if (2 * c) ^ 2 * itemsize = 0 then "zero-division" else
    toString (Gen.get_buf_count c n itemsize limit)
  | _ => "bad-op"

def optRat : Option Rat → String
  | none => "inf"
  | some r => showRat r

/-- `conv kind h w <h*w mask> <h*w data>` -> the h*w values of the correlation map (exact) -/
def opConv (ws : List String) : String :=
  match ws with
  | kind :: h :: w :: rest =>
    match h.toInt?, w.toInt?, rats? rest with
    | some h, some w, some vals =>
      let n := (h * w).toNat
      if vals.length ≠ 2 * n ∨ h ≤ 0 ∨ w ≤ 0 then "bad-op" else
      let ma := (vals.take n).toArray
      let da := (vals.drop n).toArray
      -- `getcorr` / `fast` / `full`: the shift kind the source uses now
      let kind := if kind = "getcorr" then Gen.getcorr_shift else if kind = "fast" then Gen.fast_corr_shift
        else if kind = "full" then Gen.full_corr_shift else kind
      joinRats (flat (corrMap kind (img ma w) (img da w) h w) h w)
    | _, _, _ => "bad-op"
  | _ => "bad-op"

/-- `evaluate h w <h*w values>` -> `cy cx height ry rx elev2` (window relative, exact) -/
def opEvaluate (ws : List String) : String :=
  match ws with
  | h :: w :: rest =>
    match h.toInt?, w.toInt?, rats? rest with
    | some h, some w, some vals =>
      if vals.length ≠ (h * w).toNat ∨ h ≤ 0 ∨ w ≤ 0 then "bad-op" else
      let a := vals.toArray
      let r := evaluate (img a w) h w
      s!"{r.cy} {r.cx} {showRat r.height} {showRat r.ry} {showRat r.rx} {optRat r.elev2}"
    | _, _, _ => "bad-op"
  | _ => "bad-op"

/-- `logarg which <values>`: argument of the logarithm for every value (min over the given values) -/
def opLogArg (ws : List String) : String :=
  match ws with
  | which :: rest =>
    match rats? rest with
    | some (v :: vs) =>
      let mn := minList (v :: vs)
      if which = "frame" then joinRats ((v :: vs).map fun x => Gen.log_arg x mn)
      else if which = "crop" then joinRats ((v :: vs).map fun x => Gen.cropbuf_log_arg x (Gen.cropbuf_m mn))
      else "bad-op"
    | _ => "bad-op"
  | _ => "bad-op"

/-- `frame which fy fx c b n T <fy*fx frame> <mask> <2n peaks> <T table>`: the composed pipeline
`Model.processFrameFast` / `processFrameFull` on an integer-valued frame; the logarithm is the lookup
table `T[k] = log k` supplied by the harness (the arguments `x - min + 1` are integers `1 .. T-1`).
Output per peak: `cy cx height ry rx elev2`, separated by ` ; `. -/
def opFrame (ws : List String) : String :=
  match ws with
  | which :: rest =>
    match rats? rest with
    | some (fy :: fx :: c :: b :: n :: t :: vals) =>
      if fy.den ≠ 1 ∨ fx.den ≠ 1 ∨ c.den ≠ 1 ∨ b.den ≠ 1 ∨ n.den ≠ 1 ∨ t.den ≠ 1 then "bad-op" else
      let (fy, fx, c, b, n, t) := (fy.num, fx.num, c.num, b.num, n.num, t.num)
      if fy ≤ 0 ∨ fx ≤ 0 ∨ c ≤ 0 ∨ b ≤ 0 ∨ n < 0 ∨ t < 0 then "bad-op" else
      let msize : Int := if which = "fast" then (2 * c) * (2 * c) else fy * fx
      let mw : Int := if which = "fast" then 2 * c else fx
      if vals.length ≠ (fy * fx + msize + 2 * n + t).toNat then "bad-op" else
      let fa := (vals.take (fy * fx).toNat).toArray
      let ma := ((vals.drop (fy * fx).toNat).take msize.toNat).toArray
      let pk := ((vals.drop (fy * fx + msize).toNat).take (2 * n).toNat).toArray
      let tb := (vals.drop (fy * fx + msize + 2 * n).toNat).toArray
      let L : Rat → Rat := fun q => if q.den = 1 ∧ 0 ≤ q.num then tb.getD q.num.toNat (-1000000) else (-1000000)
      let peaks : Int → Int × Int := fun i => ((pk.getD (2 * i).toNat 0).num, (pk.getD (2 * i + 1).toNat 0).num)
      let init : Int → EvalOut := fun _ => { cy := -99999, cx := -99999, height := 0, ry := 0, rx := 0, elev2 := none }
      let out := if which = "fast" then processFrameFast L (img ma mw) (img fa fx) fy fx c peaks n b init
        else processFrameFull L (img ma mw) (img fa fx) fy fx c peaks n b init
      " ; ".intercalate ((range n).map fun i =>
        let r := out i
        s!"{r.cy} {r.cx} {showRat r.height} {showRat r.ry} {showRat r.rx} {optRat r.elev2}")
    | _ => "bad-op"
  | _ => "bad-op"

/-- `framecorr which fy fx c T <fy*fx frame> <mask> <p0 p1> <T table>`: the `2c × 2c` correlation window of one
peak in the composed model (`fastCorr`, resp. the crop of `fullCorr`), row major, exact -/
def opFrameCorr (ws : List String) : String :=
  match ws with
  | which :: rest =>
    match rats? rest with
    | some (fy :: fx :: c :: t :: vals) =>
      if fy.den ≠ 1 ∨ fx.den ≠ 1 ∨ c.den ≠ 1 ∨ t.den ≠ 1 then "bad-op" else
      let (fy, fx, c, t) := (fy.num, fx.num, c.num, t.num)
      if fy ≤ 0 ∨ fx ≤ 0 ∨ c ≤ 0 ∨ t < 0 then "bad-op" else
      let msize : Int := if which = "fast" then (2 * c) * (2 * c) else fy * fx
      let mw : Int := if which = "fast" then 2 * c else fx
      if vals.length ≠ (fy * fx + msize + 2 + t).toNat then "bad-op" else
      let fa := (vals.take (fy * fx).toNat).toArray
      let ma := ((vals.drop (fy * fx).toNat).take msize.toNat).toArray
      let pk := ((vals.drop (fy * fx + msize).toNat).take 2).toArray
      let tb := (vals.drop (fy * fx + msize + 2).toNat).toArray
      let L : Rat → Rat := fun q => if q.den = 1 ∧ 0 ≤ q.num then tb.getD q.num.toNat (-1000000) else (-1000000)
      let p : Int × Int := ((pk.getD 0 0).num, (pk.getD 1 0).num)
      let win : Int → Int → Rat := if which = "fast" then fastCorr L (img ma mw) (img fa fx) fy fx c p
        else fun y x => cropPixel (fullCorr L (img ma mw) (img fa fx) fy fx) fy fx c p.1 p.2 y x
      joinRats (flat win (2 * c) (2 * c))
    | _ => "bad-op"
  | _ => "bad-op"

def opShift (ws : List String) : String :=
  match ints? ws with
  | some [v, anchor, c] => s!"{Gen.shift v anchor c} {Gen.unshift v anchor c}"
  | _ => "bad-op"

/-- `dtype name v m` -> promoted dtype, lo, hi, wrapped v - m + 1 in the input dtype, exact value -/
def opDType (ws : List String) : String :=
  match ws with
  | [name, v, m] =>
    match DType.ofString? name, v.toInt?, m.toInt? with
    | some d, some v, some m =>
      let arg := v - m + 1
      if d.isInt then s!"{(promote d).name} {d.lo} {d.hi} {wrap d arg} {arg}"
      else s!"{(promote d).name} - - {arg} {arg}"
    | _, _, _ => "bad-op"
  | _ => "bad-op"

/-- `f32 n1 n2 ...`: float32 rounding of integers (`-` where the model does not apply); `f32arg x m`: the crop-buffer log argument -/
def opF32 (ws : List String) : String :=
  match ints? ws with
  | some ns => " ".intercalate (ns.map fun n => match f32int n with | some v => toString v | none => "-")
  | none => "bad-op"

def opF32Arg (ws : List String) : String :=
  match ints? ws with
  | some [x, m] => (match cropArgF32 x m with | some v => toString v | none => "-")
  | _ => "bad-op"

def opUsGeom (ws : List String) : String :=
  match ints? ws with
  | some [us] => s!"{Gen.us_region us} {Gen.us_dftshift (Gen.us_region us)}"
  | _ => "bad-op"

def step (line : String) : String :=
  match words line with
  | "crop_pixel" :: ws => opCropPixel ws
  | "crop_slice" :: ws => opCropSlice ws
  | "pyslice" :: ws => opPySlice ws
  | "schedule" :: ws => opSchedule ws
  | "bufcount" :: ws => opBufCount ws
  | "conv" :: ws => opConv ws
  | "evaluate" :: ws => opEvaluate ws
  | "logarg" :: ws => opLogArg ws
  | "frame" :: ws => opFrame ws
  | "framecorr" :: ws => opFrameCorr ws
  | "shift" :: ws => opShift ws
  | "usgeom" :: ws => opUsGeom ws
  | "uscenter" :: ws => (match ints? ws with
      | some [n] => s!"{Gen.us_corr_center n} {shiftSrc Gen.fast_corr_shift n 0} {shiftSrc Gen.full_corr_shift n 0}"
      | _ => "bad-op")
  | "dtype" :: ws => opDType ws
  | "f32" :: ws => opF32 ws
  | "f32arg" :: ws => opF32Arg ws
  | _ => "bad-op"

def main : IO Unit := run step
