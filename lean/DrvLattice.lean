import BlobfinderModel.Model.Proto
import BlobfinderModel.Model.Lattice
import BlobfinderModel.Model.Fastmatch
import BlobfinderModel.Model.Tumble
import BlobfinderModel.Model.Fullmatch
import BlobfinderModel.Model.Udf
import BlobfinderModel.Gen.Patterns
/-
Model driver for the lattice algebra (exact rational arithmetic).
-/
open Proto Model

def pairs : List Rat → List V2
  | a :: b :: t => (a, b) :: pairs t
  | _ => []

def showV (v : V2) : String := s!"{showRat v.1} {showRat v.2}"

def opCoords (ws : List String) : String :=
  match rats? ws with
  | some (zy :: zx :: ay :: ax :: by_ :: bx :: rest) =>
    " ".intercalate ((pairs rest).map fun ij => showV (calcCoord (zy, zx) (ay, ax) (by_, bx) ij))
  | _ => "bad-op"

def opIndices (ws : List String) : String :=
  match rats? ws with
  | some (zy :: zx :: ay :: ax :: by_ :: bx :: rest) =>
    if det2 (ay, ax) (by_, bx) = 0 then "singular" else
    " ".intercalate ((pairs rest).map fun p =>
      match getIndices (zy, zx) (ay, ax) (by_, bx) p with
      | some ij => showV ij
      | none => "singular")
  | _ => "bad-op"

/-- `framepeaks fy fx r zy zx ay ax by bx i j ...` -> positions (0-based) of the kept indices -/
def opFramePeaks (ws : List String) : String :=
  match rats? ws with
  | some (fy :: fx :: r :: zy :: zx :: ay :: ax :: by_ :: bx :: rest) =>
    let idx := pairs rest
    let kept := (List.range idx.length).filter fun k =>
      withinFrame (calcCoord (zy, zx) (ay, ax) (by_, bx) (idx.getD k (0, 0))) r fy fx
    let fp := framePeaks fy fx (zy, zx) (ay, ax) (by_, bx) r idx
    if fp.length ≠ kept.length then "inconsistent" else
    " ".intercalate (kept.map toString) ++ " : " ++ " ".intercalate (fp.map fun ic => showV ic.2)
  | _ => "bad-op"

/-- `matchcoords drop frame fy fx r zy zx ay ax by bx i j ...` -/
def opMatchCoords (ws : List String) : String :=
  match ws with
  | drop :: fr :: rest =>
    match rats? rest with
    | some (fy :: fx :: r :: zy :: zx :: ay :: ax :: by_ :: bx :: rest) =>
      let res := matchCalcCoords (zy, zx) (ay, ax) (by_, bx) (pairs rest) (drop = "1")
        (if fr = "1" then some (fy, fx) else none) r
      " ".intercalate (res.map showV)
    | _ => "bad-op"
  | _ => "bad-op"

def obsOf : List Rat → List (Rat × Rat × Rat × Rat × Rat)
  | i :: j :: w :: ty :: tx :: t => (i, j, w, ty, tx) :: obsOf t
  | _ => []

/-- `wls i j w ty tx ...` -> `zy zx ay ax by bx wssy wssx` or `singular` -/
def opWls (ws : List String) : String :=
  match rats? ws with
  | some vals =>
    let o := obsOf vals
    let ly : List Obs := o.map fun (i, j, w, ty, _) => ⟨i, j, w, ty⟩
    let lx : List Obs := o.map fun (i, j, w, _, tx) => ⟨i, j, w, tx⟩
    match solveNormal (normalOf ly), solveNormal (normalOf lx) with
    | some (zy, ay, by_), some (zx, ax, bx) =>
      joinRats [zy, zx, ay, ax, by_, bx, wss zy ay by_ ly, wss zx ax bx lx]
    | _, _ => "singular"
  | none => "bad-op"

def opLayout (ws : List String) : String :=
  match ints? ws with
  | some [ndim, s0, s1] =>
    let r := if Gen.reg_is_mgrid ndim s0 s1 then "mgrid" else if Gen.reg_is_list ndim s0 s1 then "list" else "ValueError"
    let m := if Gen.mc_is_mgrid ndim s0 s1 then "mgrid" else if Gen.mc_is_list ndim s0 s1 then "list" else "ValueError"
    s!"{r} {m}"
  | _ => "bad-op"

def peaksOf : List Rat → List Peak
  | py :: px :: e :: t => ⟨(py, px), e⟩ :: peaksOf t
  | _ => []

/-- `fastmatch tol minw minmatch zy zx ay ax by bx (py px elev)*` -/
def opFastmatch (ws : List String) : String :=
  match ws with
  | tol :: mw :: mm :: rest =>
    match parseRat? tol, parseRat? mw, mm.toInt?, rats? rest with
    | some tol, some mw, some mm, some (zy :: zx :: ay :: ax :: by_ :: bx :: pk) =>
      match fastmatch (peaksOf pk) (zy, zx) (ay, ax) (by_, bx) tol mw mm with
      | .invalid => "invalid"
      | .degenerate => "degenerate"
      | .valid z a b m idx =>
        s!"valid {showV z} {showV a} {showV b} | " ++ String.join (m.map fun t => if t then "1" else "0") ++ " | " ++
          " ".intercalate (idx.map fun (i, j) => s!"{i} {j}")
    | _, _, _, _ => "bad-op"
  | _ => "bad-op"

/-- `tumble tol minw minmatch minD2 maxD2|inf sin2 zy zx ay ax by bx (py px elev)*`: one candidate pair of `_do_match` -/
def opTumble (ws : List String) : String :=
  match ws with
  | tol :: mw :: mm :: d0 :: d1 :: s2 :: rest =>
    match parseRat? tol, parseRat? mw, mm.toInt?, parseRat? d0, parseRat? s2, rats? rest with
    | some tol, some mw, some mm, some d0, some s2, some (zy :: zx :: ay :: ax :: by_ :: bx :: pk) =>
      let maxD2 : Option (Option Rat) := if d1 = "inf" then some none else (parseRat? d1).map some
      match maxD2 with
      | none => "bad-op"
      | some maxD2 =>
        let peaks := peaksOf pk
        let P : CheckP := { minMatch := mm, minD2 := d0, maxD2 := maxD2, sin2 := s2 }
        match tumble P peaks (peaks.map fun p => Gen.fm_weight_ok p.elev mw) tol (zy, zx) (ay, ax) (by_, bx) with
        | .none => "none"
        | .degenerate => "degenerate"
        | .some z a b m idx =>
          s!"some {showV z} {showV a} {showV b} | " ++ String.join (m.map fun t => if t then "1" else "0") ++ " | " ++
            " ".intercalate (idx.map fun (i, j) => s!"{i} {j}")
    | _, _, _, _, _, _ => "bad-op"
  | _ => "bad-op"

def opRound (ws : List String) : String :=
  match rats? ws with
  | some l => " ".intercalate (l.map fun x => toString (roundHalfEven x))
  | none => "bad-op"

def selOf (bits : String) : Sel := fun k => (bits.toList.getD k '0') == '1'

def bitsOf (n : Nat) (s : Sel) : String := String.mk ((List.range n).map fun k => if s k then '1' else '0')

/-- `fullmatch n min_match methods <filt bits> <zero bits> <answer>*` (answer = `N` or a bit string) -/
def opFullmatch (ws : List String) : String :=
  match ws with
  | n :: mm :: methods :: filt :: zero :: answers =>
    match n.toNat?, mm.toInt?, methods.toNat? with
    | some n, some mm, some methods =>
      let ans := answers.map fun a => if a = "N" then none else some (selOf a)
      let r := fullMatch n mm (selOf filt) (selOf zero) methods ans
      s!"{r.ms.length} {bitsOf n r.unmatched} {bitsOf n r.weak} " ++ " ".intercalate (r.ms.map (bitsOf n))
    | _, _, _ => "bad-op"
  | _ => "bad-op"

def opUdf (ws : List String) : String :=
  match ws with
  | ["peak", p, zs] => match parseRat? p, parseRat? zs with
    | some p, some zs => toString (udfPeak p zs)
    | _, _ => "bad-op"
  | ["sparseoffset", peak, d, c] => match peak.toInt?, d.toInt?, c.toInt? with
    | some peak, some d, some c => s!"{Gen.sparse_offset peak d c} {Gen.sparse_size c} {Gen.mask_center (Gen.sparse_size c)}"
    | _, _, _ => "bad-op"
  | ["dispatch", corr, mt] =>
    (match Gen.dispatch_correlation corr with | some c => c | none => "ValueError") ++ " " ++
    (match Gen.dispatch_match mt with | some c => c | none => "ValueError")
  | _ => "bad-op"

def step (line : String) : String :=
  match words line with
  | "coords" :: ws => opCoords ws
  | "indices" :: ws => opIndices ws
  | "framepeaks" :: ws => opFramePeaks ws
  | "matchcoords" :: ws => opMatchCoords ws
  | "wls" :: ws => opWls ws
  | "layout" :: ws => opLayout ws
  | "fastmatch" :: ws => opFastmatch ws
  | "tumble" :: ws => opTumble ws
  | "round" :: ws => opRound ws
  | "fullmatch" :: ws => opFullmatch ws
  | "udf" :: ws => opUdf ws
  | _ => "bad-op"

def main : IO Unit := run step
