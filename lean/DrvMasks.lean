import BlobfinderModel.Model.Proto
import BlobfinderModel.Model.Masks
/-
Model driver for masks and patterns.
-/
open Proto Model

/-- `bins R ri n isCenter r1 r2 ...` -> for every r the n bin values, groups separated by `|` -/
def opBins (ws : List String) : String :=
  match ws with
  | R :: ri :: n :: c :: rs =>
    match parseRat? R, parseRat? ri, n.toNat?, rats? rs with
    | some R, some ri, some n, some rs =>
      if n = 0 then "bad-op" else
      let isC := c = "1"
      " | ".intercalate (rs.map fun r => joinRats (binsAt R ri n isC r))
    | _, _, _, _ => "bad-op"
  | _ => "bad-op"

def opBinCenters (ws : List String) : String :=
  match ws with
  | [R, ri, n] =>
    match parseRat? R, parseRat? ri, n.toNat? with
    | some R, some ri, some n =>
      if n = 0 then "bad-op" else
      joinRats ((List.range n).map fun k => binCenter ri (Gen.bin_width R ri n) k)
    | _, _, _ => "bad-op"
  | _ => "bad-op"

def step (line : String) : String :=
  match words line with
  | "bins" :: ws => opBins ws
  | "bincenters" :: ws => opBinCenters ws
  | _ => "bad-op"

def main : IO Unit := run step
