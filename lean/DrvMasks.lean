import BlobfinderModel.Model.Proto
import BlobfinderModel.Model.Masks
import BlobfinderModel.Model.Patterns
/-
Model driver for masks and patterns.
-/
open Proto Model

/-- `bins R ri n isCenter r1 r2 ...` -> for every r the n bin values, groups separated by `|` -/
def opBins (ws : List String) : String :=
  match ws with
  | R :: ri :: n :: c :: rs =>
    match parseRat? R, parseRat? ri, n.toNat?, rats? rs with
    | some R, some ri, some n, some rs =>
      if n = 0 then "bad-op" else
      let isC := c = "1"
      " | ".intercalate (rs.map fun r => joinRats (binsAt R ri n isC r))
    | _, _, _, _ => "bad-op"
  | _ => "bad-op"

def opBinCenters (ws : List String) : String :=
  match ws with
  | [R, ri, n] =>
    match parseRat? R, parseRat? ri, n.toNat? with
    | some R, some ri, some n =>
      if n = 0 then "bad-op" else
      joinRats ((List.range n).map fun k => binCenter ri (Gen.bin_width R ri n) k)
    | _, _, _ => "bad-op"
  | _ => "bad-op"


def showOpt : Option Int → String
  | none => "N"
  | some v => toString v

/-- `utindex target source` -> length, before, after, then the source index for every target index -/
def opUtIndex (ws : List String) : String :=
  match ints? ws with
  | some [target, source] =>
    if target < 1 ∨ source < 1 then "bad-op" else
    let wd := utWidths target source
    if wd.1 < 0 ∨ wd.2 < 0 then "negative-width" else
    s!"{utLength target source} {wd.1} {wd.2} : " ++
      " ".intercalate ((irange (utLength target source)).map fun i => showOpt (utIndex target source i))
  | _ => "bad-op"

/-- `maskval kind p1 p2 p3 c r...` -/
def opMaskVal (ws : List String) : String :=
  match ws with
  | kind :: p1 :: p2 :: p3 :: c :: rs =>
    match parseRat? p1, parseRat? p2, parseRat? p3, rats? rs with
    | some p1, some p2, some p3, some rs =>
      let isC := c = "1"
      if kind = "circular" then joinRats (rs.map fun r => circularMask p1 isC r)
      else if kind = "ring" then joinRats (rs.map fun r => ringMask p1 p2 isC r)
      else if kind = "gradient" then joinRats (rs.map fun r => gradientMask p1 r)
      else if kind = "rgbs" then joinRats (rs.map fun r => Gen.rgbs_val r p1 p2 p3)
      else "bad-op"
    | _, _, _, _ => "bad-op"
  | _ => "bad-op"

def opStamp (ws : List String) : String :=
  match ints? ws with
  | some (th :: tw :: oy :: ox :: sy :: sx :: vals) =>
    if vals.length ≠ (th * tw).toNat ∨ th < 0 ∨ tw < 0 ∨ sy < 0 ∨ sx < 0 then "bad-op" else
    let a := (vals.map fun (v : Int) => (v : Rat)).toArray
    let tmpl : Int → Int → Rat := img a tw
    joinRats ((irange sy).flatMap fun y => (irange sx).map fun x => stampDense tmpl th tw oy ox sy sx y x)
  | _ => "bad-op"

def opCtor (ws : List String) : String :=
  match ws with
  | [kind, radius, search, outer] =>
    match parseRat? radius with
    | some radius =>
      -- `N` = argument omitted: defaults filled in as the constructors do
      if kind = "circular" ∨ kind = "radial_gradient" then
        let search := (parseRat? search).getD (Gen.circ_default_search radius)
        let rej := if kind = "circular" then Gen.circ_rejects radius search else Gen.rg_rejects radius search
        if rej then "ValueError" else s!"ok {showRat search} {Gen.crop_size_of search}"
      else if kind = "background_subtraction" ∨ kind = "rgbs" then
        let outer := (parseRat? outer).getD (Gen.bs_default_radius_outer radius 0)
        let search := (parseRat? search).getD (Gen.bs_default_search radius outer)
        let rej := if kind = "rgbs" then Gen.rgbs_rejects radius search outer else Gen.bs_rejects radius search outer
        if rej then "ValueError" else
          let extra := if kind = "rgbs" then
            let r := Gen.rgbs_r radius outer
            s!" {Gen.rgbs_center r} {Gen.rgbs_size r}" else ""
          s!"ok {showRat search} {Gen.crop_size_of search} {showRat outer}{extra}"
      else "bad-op"
    | none => "bad-op"
  | _ => "bad-op"

def opGeom (ws : List String) : String :=
  match ws with
  | ["center", n] => match n.toInt? with
    | some n => toString (Gen.mask_center n)
    | none => "bad-op"
  | ["fv", peak, c] => match peak.toInt?, c.toInt? with
    | some peak, some c => s!"{Gen.fv_offset peak c} {Gen.fv_size c}"
    | _, _ => "bad-op"
  | ["scbbox", r] => match parseRat? r with
    | some r => s!"{Gen.sc_bbox r} {Gen.sc_center (Gen.sc_bbox r)}"
    | none => "bad-op"
  | ["diskin", y, x, r] => match parseRat? y, parseRat? x, parseRat? r with
    | some y, some x, some r => if Gen.disk_in y x r then "1" else "0"
    | _, _, _ => "bad-op"
  | _ => "bad-op"

def step (line : String) : String :=
  match words line with
  | "bins" :: ws => opBins ws
  | "bincenters" :: ws => opBinCenters ws
  | "utindex" :: ws => opUtIndex ws
  | "maskval" :: ws => opMaskVal ws
  | "stamp" :: ws => opStamp ws
  | "ctor" :: ws => opCtor ws
  | "geom" :: ws => opGeom ws
  | _ => "bad-op"

def main : IO Unit := run step
