#!/bin/bash
# Build the framework from files on disk only (offline): regenerate Gen/ from /repo, build the
# Lean library (all property modules) and the model drivers.
set -e
cd "$(dirname "$0")"
/venv/bin/python harness/translate.py || true
cd lean
lake build BlobfinderModel 2>&1 | tail -5
for d in $(grep -A1 '^\[\[lean_exe\]\]' lakefile.toml | grep '^name' | sed 's/name = "\(.*\)"/\1/'); do
  lake build "$d" 2>&1 | tail -2
done
